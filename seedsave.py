#!/usr/bin/env python3
import sys, json, os, shutil
prop, n, needs, detected = sys.argv[1], sys.argv[2], sys.argv[3], sys.argv[4]
src = f"/tmp/wt/{prop}/out"
dst = f"/verif/seeded/{prop}-m{n}"
os.makedirs(dst, exist_ok=True)
shutil.copy(f"{src}/m{n}.diff", f"{dst}/patch.diff")
shutil.copy(f"{src}/m{n}_demo_test.go", f"{dst}/demo_test.go")
meta = {
 "property": prop,
 "origin": "independent sub-agent given only the property text and a scratch worktree of /repo",
 "needs_to_manifest": needs,
 "confirmed_by": [
   f"seedcheck.sh {prop} {n}: in a scratch worktree at /repo HEAD the demonstration test passes without the change; with the change applied `go build ./...` and the full suite `go test -vet=off -count=1 ./...` pass and the demonstration test fails",
   f"seedrun.sh seeded/{prop}-m{n}/patch.diff {prop}: change applied to /repo with git apply, ./check {prop} quick run, change undone with git checkout -- .",
 ],
 "demo": "demo_test.go (place under internal/zdemo/ in the module; see its header for the go test command)",
 "detected_by": detected,
}
json.dump(meta, open(f"{dst}/meta.json", "w"), indent=1)
print("saved", dst)
