#!/usr/bin/env python3
"""Regenerates MANIFEST.json from claims.json (per-property claim text) and
properties.jsonl.  Properties without a claim are listed under not_applicable."""
import json, sys
props = [json.loads(l) for l in open('properties.jsonl')]
claims = json.load(open('claims.json'))
checks, na = [], []
for p in props:
    pid = p['id']
    c = claims.get(pid)
    if not c or c.get('not_applicable'):
        na.append({"property_id": pid, "reason": (c or {}).get('not_applicable', 'no bounded harness runs clean yet (see DESIGN.md section 7); not claimed')})
        continue
    checks.append({
        "property_id": pid,
        "quick_cmd": f"./check {pid} quick",
        "thorough_cmd": f"./check {pid} thorough",
        "evidence_file": f"evidence/{pid}.json",
        "replay_cmd_template": "./check --replay {path}",
        "engine": "gosym",
        "level_claimed": {"category": "model_checking", "text": c['text'], "design_ref": c.get('design_ref', 'DESIGN.md section 6')},
        "level_note": c['note'],
        "technique": c.get('technique', "bounded symbolic execution of gosk's go/ssa with z3 (SMT, bit-vectors) deciding every path condition and assertion; counterexamples replayed natively"),
    })
m = {
    "version": 1,
    "setup_cmd": "cd /verif/engine && GOFLAGS=-mod=mod GOPROXY=off GOSUMDB=off GOTOOLCHAIN=local go build -o /verif/bin/gosym ./cmd/gosym",
    "hooks": {
        "guard": "verif",
        "enable": "harness files (//go:build verif) are injected from /verif/harness/overlay by go/packages Overlay (engine) and `go test -c -tags verif -overlay` (native replay); nothing is written into /repo",
        "baseline_off_cmd": "cd /repo && GOFLAGS=-mod=mod go test -vet=off -count=1 ./...",
        "source_commits": [],
        "add_only": True,
    },
    "engines": [{"name": "gosym", "path": "engine", "serves_properties": [c['property_id'] for c in checks],
                 "kind_free_text": "own symbolic interpreter for go/ssa (x/tools v0.29.0) with SMT bit-vector terms, decimal-text atoms, DFS by re-execution, z3 -in; native replay and translator validation"}],
    "checks": checks,
    "not_applicable": na,
    "notes": "All checks decide their property by solver queries over the real code's SSA, rebuilt from /repo on every run. Exit 0 = held within the stated bounds (possibly with KNOWN-FINDING lines), 1 = VIOLATION (replayed natively), 2 = inconclusive (never on the registered bounds of the unchanged tree).",
}
json.dump(m, open('MANIFEST.json', 'w'), indent=1)
print("checks:", [c['property_id'] for c in checks], "n/a:", [n['property_id'] for n in na])
