//go:build verif

package zzverif

import (
	"strings"

	"github.com/HobbyOSs/gosk/internal/zzverif/vrt"
)

func init() { vrt.Register("zzverif.VC11", VC11) }

// programs using EQU names QX (defined as the literal L), QY, QZ, QW;
// statements separated by " ; ".
var c11Programs = []string{
	"QX EQU L ; DD QX",
	"QX EQU L ; DW QX",
	"QX EQU L ; DB QX",
	"QX EQU L ; MOV AX,QX",
	"QX EQU L ; MOV AX,[BX+QX]",
	"QX EQU L ; MOV BYTE [SI+QX],QX",
	"[BITS 32] ; QX EQU L ; MOV EAX,QX ; ADD EBX,QX",
	"QX EQU L ; DD QX*2",
	"QX EQU L ; DD QX/16",
	"QX EQU L ; DD QX%7",
	"QX EQU L ; DD 2*QX+QX",
	"QX EQU L ; DD QX-1 ; DD 1-QX",
	"QX EQU L ; QY EQU QX*2 ; DD QX ; DD QY",
	"QX EQU L ; QY EQU QX/4 ; QZ EQU QX+QY ; DD QX ; DD QY ; DD QZ",
	"QX EQU L ; QY EQU QX ; QZ EQU QY ; QW EQU QZ ; DD QW",
	"QX EQU L ; QY EQU QX-1 ; QZ EQU QY*3 ; DW QZ ; DD QX",
	"[BITS 32] ; QX EQU L ; MOV EAX,[EBX+QX*2] ; MOV ECX,[EBX+QX]",
	"QX EQU L ; QY EQU 0x10 ; DD QX+QY ; DB QY",
	"QX EQU L ; DB 1,QX,2 ; DW QX,QX",
	"QX EQU L ; QY EQU QX/0x10000 ; DW QY ; DB QX/0x1000000",
}

var c11Concrete = []string{
	"QX EQU 512 ; RESB QX*2/512 ; DB QX/256",
	"QX EQU 3 ; RESB QX ; DB QX",
	"QX EQU 0x7c00 ; ORG QX ; here: ; DW here",
	"QX EQU 8 ; QY EQU QX*2 ; RESB QY-QX ; DB QY",
	// the name as the scale factor of an index register, and as a chained offset
	"[BITS 32] ; QX EQU 4 ; MOV EAX,[EBX+ECX*QX] ; NOP",
	"[BITS 32] ; QX EQU 2 ; QY EQU QX*8 ; MOV EAX,[ESI*QX+QY] ; MOV [EBX+EDI*QX+QY],ECX",
	"QX EQU 4 ; MOV AX,[EBX+ECX*QX] ; NOP",
	// the name is an alias of something that does not fold to a number, used twice
	"NOP ; NOP ; tbl: ; DB 0x11 ; QX EQU tbl ; DW QX ; DW QX",
	// a value of exactly zero as displacement, register first
	"[BITS 32] ; QX EQU 0 ; QY EQU 4 ; MOV EAX,[EBX+QX] ; MOV ECX,[EBX+QY] ; MOV EDX,[EBX+ESI+QX]",
	"QX EQU 0 ; MOV AL,[SI+QX] ; MOV [BX+QX],AL",
	// the name used in a product first, then again
	"QX EQU 512 ; DW QX*18 ; DW QX ; MOV AX,QX",
}

// inlineEqu removes the EQU statements and substitutes their parenthesised
// bodies for the names (textual inlining).
func inlineEqu(stmts []string) []string {
	defs := map[string]string{}
	var names []string
	var out []string
	for _, s := range stmts {
		if i := strings.Index(s, " EQU "); i > 0 {
			name := s[:i]
			body := s[i+5:]
			for _, n := range names {
				body = strings.ReplaceAll(body, n, defs[n])
			}
			defs[name] = "(" + body + ")"
			names = append(names, name)
			continue
		}
		for _, n := range names {
			s = strings.ReplaceAll(s, n, defs[n])
		}
		out = append(out, s)
	}
	return out
}

// VC11: using an EQU name is indistinguishable from writing its
// parenthesised defining expression.
func VC11() {
	var prog string
	var sb1, sb2 subs
	sym := vrt.Choose("symbolic", 2) == 1
	var l int64
	if sym {
		prog = vrt.ChooseStr("prog", c11Programs)
		if vrt.Choose("range", 2) == 0 {
			l = vrt.IntRange("L", 0, 0xffffffff)
		} else {
			l = vrt.IntRange("L", -70000, 70000)
		}
	} else {
		prog = vrt.ChooseStr("prog", c11Concrete)
	}
	stmts := strings.Split(prog, " ; ")
	render := func(ss []string, sb *subs) string {
		text := strings.Join(ss, "\n") + "\n"
		for strings.Contains(text, "L") && sym {
			i := strings.Index(text, "L")
			// only the standalone placeholder letter (never part of another token here)
			text = text[:i] + lit(l, sb) + text[i+1:]
		}
		return text
	}
	src1 := render(stmts, &sb1)
	src2 := render(inlineEqu(stmts), &sb2)
	vrt.Note("src", src1)
	vrt.Note("inlined", src2)
	out1, oc1 := AssembleT(src1, sb1.list, "a")
	d1 := diagnosed()
	vrt.ResetDiag()
	out2, oc2 := AssembleT(src2, sb2.list, "b")
	d2 := diagnosed()
	vrt.Note("outcome", oc1+"/"+oc2)
	vrt.NoteBytes("bytes", out1)
	vrt.NoteBytes("bytes_inlined", out2)
	if oc2 != "ok" || d2 {
		// the inlined form itself is not accepted: nothing to compare
		vrt.Reach("c11.rejected")
		return
	}
	vrt.Reach("c11.accepted")
	var acc diffAcc
	acc.flag(oc1 != "ok" || d1)
	acc.flag(len(out1) != len(out2))
	if len(out1) == len(out2) {
		for i := range out1 {
			acc.eq(uint64(out1[i]), uint64(out2[i]))
		}
	}
	vrt.Assert(acc.d == 0, "c11.same")
}
