//go:build verif

package zzverif

import (
	"strings"

	"github.com/HobbyOSs/gosk/internal/zzverif/vrt"
)

func init() {
	vrt.Register("zzverif.VC07Range", VC07Range)
	vrt.Register("zzverif.VC07Invalid", VC07Invalid)
	vrt.Register("zzverif.VC07All", VC07All)
}

// every mnemonic of the grammar's Opcode rule (internal/gen/grammar.peg)
var c07Mnemonics = strings.Fields("FYL2XP1 FXTRACT FUCOMPP FSINCOS FRNDINT FNSTENV FINCSTP FDECSTP CMPXCHG WBINVD SETNLE SETNGE SETNBE SETNAE PUSHFW PUSHFD PUSHAW PUSHAD LOOPNZ LOOPNE INVLPG FUCOMP FSUBRP FSTENV FSETPM FSCALE FRSTOR FPREM1 FPATAN FNSTSW FNSTCW FNSAVE FNINIT FNDISI FNCLEX FLDLN2 FLDLG2 FLDL2T FLDL2E FLDENV FISUBR FIDIVR FICOMP FDIVRP FCOMPP ALIGNB XLATB WRMSR TIMES STOSW STOSD STOSB SETPO SETPE SETNZ SETNS SETNP SETNO SETNL SETNG SETNE SETNC SETNB SETNA SETLE SETGE SETBE SETAE SCASW SCASD SCASB REPNZ REPNE RDPMC RDMSR PUSHF PUSHD PUSHA POPFW POPFD POPAW POPAD OUTSW OUTSD OUTSB MOVZX MOVSX MOVSW MOVSD MOVSB LOOPZ LOOPE LODSW LODSD LODSB LEAVE JECXZ IRETW IRETD FYL2X FUCOM FSUBR FSUBP FSTSW FSTCW FSQRT FSAVE FPTAN FPREM FNENI FMULP FLDPI FLDCW FISUB FISTP FINIT FIMUL FIDIV FICOM FIADD FFREE FDIVR FDIVP FDISI FCOMP FCLEX FBSTP FADDP F2XM1 ENTER CPUID CMPSW CMPSD CMPSB BSWAP BOUND ALIGN XCHG XADD WAIT VERW VERR TEST SMSW SLDT SIDT SHRD SHLD SGDT SETZ SETS SETP SETO SETL SETG SETE SETC SETB SETA SAHF RETN RETF RESW REST RESQ RESD RESB REPZ REPE PUSH POPF POPA LOOP LOCK LMSW LLDT LIDT LGDT LAHF JNLE JNGE JNBE JNAE JCXZ IRET INVD INTO INT3 INSW INSD INSB INCO IMUL IDIV FXCH FXAM FTST FSUB FSTP FSIN FNOP FMUL FLDZ FLD1 FIST FILD FENI FDIV FCOS FCOM FCHS FBLD FADD FABS CWDE CLTS CALL ARPL XOR UD2 SUB STR STI STD STC SHR SHL SBB SAR SAL RSM ROR ROL RET REP RCR RCL POP OUT ORG NOT NOP NEG MUL MOV LTR LSS LSL LGS LFS LES LEA LDS LAR JPO JPE JNZ JNS JNP JNO JNL JNG JNE JNC JNB JNA JMP JLE JGE JBE JAE INT INC HLT FST FLD END DIV DEC DAS DAA CWD CMP CMC CLI CLD CLC CDQ CBW BTS BTR BTC BSR BSF AND ADD ADC AAS AAM AAD AAA OR JZ JS JP JO JL JG JE JC JB JA IN DW DT DQ DD DB BT")

// statements that have no valid assembly: wrong operand counts, undefined
// symbols, non-constant values where a constant is required, impossible
// operand combinations.  Each must yield a diagnostic or a failing run.
var c07Invalid = []string{
	"MOV AX", "MOV AX,BX,CX", "MOV", "ADD AX", "ADD AX,BX,CX", "SUB", "CMP AX", "AND AX", "OR AX,1,2", "XOR AX",
	"NOT", "NOT AX,BX", "SHL AX", "SHR", "SAR AX,1,2", "IMUL", "PUSH", "PUSH AX,BX", "POP", "POP AX,BX", "INT", "INT 1,2",
	"JMP", "JMP fin,3", "JE fin,1", "JNZ fin,AX", "CALL", "CALL fin,BX", "IN AL", "IN", "OUT DX", "OUT", "LGDT", "LGDT [0x100],AX",
	"ORG", "ORG 1,2", "RESB", "RESB 1,2", "ALIGNB", "ALIGNB 1,2",
	"MOV AX,nosuch", "MOV BX,nosuch", "MOV CL,nosuch", "MOV [nosuch],AX", "MOV AX,[nosuch]", "MOV AX,[BX+nosuch]", "ADD AX,nosuch", "CMP BX,nosuch",
	"PUSH nosuch", "JMP nosuch", "JE nosuch", "CALL nosuch", "DW nosuch", "DD nosuch", "DB nosuch", "RESB nosuch", "ORG nosuch", "ALIGNB nosuch",
	"LGDT [nosuch]", "INT nosuch", "IN AL,nosuch", "OUT nosuch,AL", "DW fin+nosuch", "MOV AX,nosuch+1",
	"MOV AX,EBX", "MOV AL,BX", "ADD AL,BX", "MOV CS,AX", "MOV ES,DS", "MOV CR0,AX", "PUSH AL", "POP AL", "IN BX,DX", "OUT DX,BX",
	"MOV 1,AX", "ADD 1,AX", "MOV [BX],[SI]", "ADD [BX],[SI]", "MOV AX,\"ab\"", "DW \"ab\"", "RESB -1", "ALIGNB 0", "ALIGNB -4",
	"MOV [AX],BX", "MOV AX,[BX+CX]", "MOV AX,[SI+DI]", "MOV AX,[SI+BX]", "ADD [DI+SI],CX", "CMP BYTE [SI+DI+4],1", "MOV AX,[AX+SI]", "MOV AX,[DI+BP]", "MOV AX,[ESP*2]", "MOV EAX,[EBX*3]", "INT 256", "INT -1", "SHL AX,BX", "RET AX",
}

func embed(stmt string, mode int) string {
	return bitsHeader(mode) + "ORG 0x7c00\nMOV AX,1\n" + stmt + "\nfin:\nHLT\nlbl:\nDW lbl\n"
}

// VC07Invalid: what cannot be assembled is diagnosed, never silently
// dropped or turned into something else.
func VC07Invalid() {
	mode := []int{16, 32}[vrt.Choose("mode", 2)]
	stmt := vrt.ChooseStr("stmt", c07Invalid)
	src := embed(stmt, mode)
	vrt.Note("src", src)
	out, oc := AssembleT(src, nil, "s")
	vrt.Note("outcome", oc)
	vrt.NoteBytes("bytes", out)
	vrt.Reach("c07i.ran")
	vrt.Assert(oc != "ok" || diagnosed(), "c07.diagnosed")
}

// VC07Range: operands with an architectural range (I/O ports and interrupt
// numbers are one byte) given a solver-variable value beyond it: never
// assembled silently (the byte would be truncated to another port/vector).
func VC07Range() {
	mode := []int{16, 32}[vrt.Choose("mode", 2)]
	form := vrt.ChooseStr("form", []string{"OUT %,AL", "OUT %,AX", "OUT %,EAX", "IN AL,%", "IN AX,%", "IN EAX,%", "INT %"})
	p := vrt.IntRange("p", 256, 99999)
	var sb subs
	stmt := strings.Replace(form, "%", lit(p, &sb), 1)
	src := embed(stmt, mode)
	vrt.Note("src", src)
	out, oc := AssembleT(src, sb.list, "s")
	vrt.Note("outcome", oc)
	vrt.NoteBytes("bytes", out)
	vrt.Reach("c07r.ran")
	vrt.Assert(oc != "ok" || diagnosed(), "c07.range")
}

var c07Shapes = []string{"", "AX", "AX,BX", "AX,1", "1", "[BX]", "AX,[BX]", "AX,BX,1", "EAX", "lbl0"}

// VC07All: every mnemonic the grammar accepts, with operand lists of 0..3
// operands: if the run is silent, the statement must have produced bytes and
// the label after it must be where the bytes really end.
func VC07All() {
	mn := vrt.ChooseStr("mn", c07Mnemonics)
	if mn == "ORG" || mn == "END" || mn == "TIMES" {
		vrt.Assume(false) // ORG moves the origin the layout check relies on
	}
	shape := vrt.ChooseStr("shape", c07Shapes)
	mode := 16
	stmt := mn
	if shape != "" {
		stmt += " " + shape
	}
	src := "ORG 0x7c00\nlbl0:\nMOV AX,1\n" + stmt + "\nfin:\nHLT\nlbl:\nDW lbl\n"
	_ = mode
	vrt.Note("src", src)
	out, oc := AssembleT(src, nil, "s")
	vrt.Note("outcome", oc)
	vrt.NoteBytes("bytes", out)
	if oc != "ok" || diagnosed() {
		vrt.Reach("c07a.diagnosed")
		return
	}
	vrt.Reach("c07a.silent")
	n := len(out)
	// layout: B8 01 00 | S | F4 | DW lbl
	ok := n >= 6 && out[0] == 0xb8 && out[n-3] == 0xf4
	if ok {
		want := 0x7c00 + n - 2
		ok = out[n-2] == byte(want) && out[n-1] == byte(want>>8)
	}
	vrt.Assert(ok, "c07.layout")
	silentKinds := map[string]bool{"ORG": true, "EQU": true, "GLOBAL": true, "EXTERN": true, "RESB": true, "ALIGNB": true, "ALIGN": true, "END": true, "TIMES": true}
	if !silentKinds[mn] {
		vrt.Assert(n > 6, "c07.emitted")
	}
}
