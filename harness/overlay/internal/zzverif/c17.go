//go:build verif

package zzverif

import (
	"strings"

	"github.com/HobbyOSs/gosk/internal/zzverif/vrt"
	"github.com/HobbyOSs/gosk/internal/zzverif/x86ref"
)

func init() { vrt.Register("zzverif.VC17", VC17) }

var c17Groups = []string{
	"MOV AX,1 ; MOV EAX,1 ; ADD BX,2 ; PUSH EAX",
	"MOV AX,L ; MOV ECX,L ; CMP WORD [SI],L",
	"MOV AL,[SI] ; MOV [0x0ff0],CX ; ADD ECX,[EBX+4] ; POP BX",
	"HLT ; DB 0x90 ; RET",
}

// layouts: "@1"/"@2" stand for the instruction groups; M1/M2 for their modes
var c17Layouts = []string{
	"@1", // no BITS directive: 16-bit
	"[BITS M1] ; @1",
	"QX EQU 5 ; GLOBAL foo ; [FILE \"a.nas\"] ; here: ; [BITS M1] ; @1",
	"DB 0x55,0xAA ; [BITS M1] ; @1",
	"ORG 0x100 ; RESB 2 ; [BITS M1] ; @1",
	"[BITS M1] ; @1 ; [BITS M2] ; @2",
	"[BITS M1] ; HLT ; DB 0x90 ; [BITS M2] ; @2",
	"[BITS M2] ; [BITS M1] ; @1",
}

// VC17: every instruction is encoded and sized for the mode in force where
// it stands.
func VC17() {
	layout := vrt.Choose("layout", len(c17Layouts))
	g1 := vrt.Choose("g1", len(c17Groups))
	m1 := []string{"16", "32"}[vrt.Choose("m1", 2)]
	m2 := []string{"16", "32"}[vrt.Choose("m2", 2)]
	g2 := (g1 + 1) % len(c17Groups)
	l := vrt.IntRange("L", -40000, 40000)
	lay := c17Layouts[layout]
	if layout == 0 {
		m1 = "16"
	}
	uses2 := strings.Contains(lay, "@2") || strings.Contains(lay, "M2")
	if !uses2 && m2 == "32" {
		vrt.Assume(false)
	}
	render := func(t string, sb *subs) string {
		t = strings.ReplaceAll(t, " ; ", "\n") + "\n"
		for strings.Contains(t, ",L") {
			i := strings.Index(t, ",L")
			t = t[:i+1] + lit(l, sb) + t[i+2:]
		}
		return t
	}
	var sb, sb1, sb2 subs
	text := strings.ReplaceAll(strings.ReplaceAll(lay, "M1", m1), "M2", m2)
	text = strings.ReplaceAll(text, "@1", c17Groups[g1])
	text = strings.ReplaceAll(text, "@2", c17Groups[g2])
	src := render(text+" ; lbl: ; DW lbl", &sb)
	vrt.Note("src", src)
	out, oc := AssembleTK(src, sb.list, "p", "kp")
	dg := diagnosed()
	vrt.ResetDiag()
	// reference: each group alone in its own mode
	r1, rc1 := AssembleTK(render("[BITS "+m1+"] ; "+c17Groups[g1], &sb1), sb1.list, "r1", "k1")
	var r2 []byte
	rc2 := "ok"
	if strings.Contains(lay, "@2") {
		r2, rc2 = AssembleTK(render("[BITS "+m2+"] ; "+c17Groups[g2], &sb2), sb2.list, "r2", "k2")
	}
	vrt.NoteBytes("out", out)
	vrt.NoteBytes("ref1", r1)
	vrt.NoteBytes("ref2", r2)
	if oc != "ok" || dg || rc1 != "ok" || rc2 != "ok" {
		vrt.Reach("c17.rejected")
		return
	}
	vrt.Reach("c17.accepted")
	// expected image: prefix data + group 1 + (middle data) + group 2 + DW lbl
	var want []byte
	org := 0
	switch layout {
	case 3:
		want = append(want, 0x55, 0xaa)
	case 4:
		want = append(want, 0, 0)
		org = 0x100
	}
	if layout == 6 {
		want = append(want, 0xf4, 0x90)
	} else {
		want = append(want, r1...)
	}
	want = append(want, r2...)
	var acc diffAcc
	acc.flag(len(out) != len(want)+2)
	if len(out) == len(want)+2 {
		for i := range want {
			acc.eq(uint64(out[i]), uint64(want[i]))
		}
		acc.eqLE(out[len(want):], int64(org+len(want)))
	}
	vrt.Assert(acc.d == 0, "c17.mode")
}

func init() { vrt.Register("zzverif.VC17Decode", VC17Decode) }

// mode-sensitive statements as structured values (the decoder's expectation
// comes with them); the immediate is a solver variable
func c17Stmt(k int, mode int, imm int64) Stmt {
	abs := MemSpec{HasDisp: true, Disp: 0x0ff0}
	switch k {
	case 0:
		return mkStmt("MOV", mode, R("AX"), I(imm))
	case 1:
		return mkStmt("MOV", mode, R("EAX"), I(imm))
	case 2:
		return mkStmt("ADD", mode, R("BX"), I(imm))
	case 3:
		return mkStmt("ADD", mode, R("ECX"), M(MemSpec{Base: "EBX", HasDisp: true, Disp: 4}))
	case 4:
		return mkStmt("MOV", mode, R("AL"), M(MemSpec{Base: "SI"}))
	case 5:
		return mkStmt("MOV", mode, M(abs), R("CX"))
	case 6:
		return mkStmt("PUSH", mode, R("EAX"))
	case 7:
		return mkStmt("POP", mode, R("BX"))
	case 8, 9:
		st := mkStmt("OUT", mode, I(0x60), R([]string{"AX", "EAX"}[k-8]))
		st.Want.Ops[0].Size = 8
		st.Want.OpSize = []int{16, 32}[k-8]
		return st
	case 10, 11:
		st := mkStmt("IN", mode, R([]string{"AX", "EAX"}[k-10]), I(0x60))
		st.Want.Ops[1].Size = 8
		return st
	case 12:
		st := mkStmt("LGDT", mode, M(abs))
		st.Want.Ops[0].Size = 0
		return st
	case 13:
		return mkStmt("CMP", mode, M(MemSpec{Base: "SI", SizeKw: "WORD"}), I(imm))
	case 14:
		return mkStmt("PUSH", mode, I(imm))
	case 15:
		return mkStmt("MOV", mode, R("ECX"), M(MemSpec{Base: "BX", Index: "SI"}))
	case 17:
		return mkStmt("NOT", mode, R("EAX"))
	case 18:
		return mkStmt("NOT", mode, R("CX"))
	case 19:
		return mkStmt("NOT", mode, M(MemSpec{Base: "EBX", SizeKw: "DWORD"}))
	case 20:
		st := mkStmt("SHL", mode, R("EBX"), I(4))
		st.Want.Ops[1].Size = 8
		return st
	case 21:
		return mkStmt("IN", mode, R("AX"), R("DX"))
	}
	return mkStmt("RET", mode)
}

const c17NStmts = 22

// VC17Decode: a statement that follows a BITS directive — wherever the
// directive stands — decodes, in that mode, to exactly the statement written,
// and the label after it is where its bytes end (an oracle independent of the
// assembler's own output for the same mode).
func VC17Decode() {
	layouts := []string{"@", "[BITS M] ; @", "QX EQU 5 ; GLOBAL foo ; [FILE \"a.nas\"] ; here: ; [BITS M] ; @", "DB 0x55,0xAA ; [BITS M] ; @", "ORG 0x100 ; RESB 2 ; [BITS M] ; @", "[BITS N] ; [BITS M] ; @", "[INSTRSET \"i486p\"] ; [BITS M] ; @"}
	prefixLen := []int{0, 0, 0, 2, 2, 0, 0}
	orgs := []int{0, 0, 0, 0, 0x100, 0, 0}
	layout := vrt.Choose("layout", len(layouts))
	mode := []int{16, 32}[vrt.Choose("mode", 2)]
	if layout == 0 {
		vrt.Assume(mode == 16)
	}
	k := vrt.Choose("stmt", c17NStmts)
	imm := int64(5)
	if k == 0 || k == 1 || k == 2 || k == 13 || k == 14 {
		imm = immediate("imm")
	}
	st := c17Stmt(k, mode, imm)
	t, sb := st.Template()
	tailLen := 2
	if k == 16 {
		// LGDT [label]: the label stands right behind the instruction
		t = "LGDT [gd] ; gd: ; DW 23"
		tailLen = 4
	}
	other := map[int]string{16: "32", 32: "16"}[mode]
	text := strings.ReplaceAll(strings.ReplaceAll(layouts[layout], "M", map[int]string{16: "16", 32: "32"}[mode]), "N", other)
	text = strings.ReplaceAll(text, "@", t)
	src := strings.ReplaceAll(text, " ; ", "\n") + "\nlbl:\nDW lbl\n"
	vrt.Note("src", src)
	out, oc := AssembleT(src, sb, "s")
	vrt.Note("outcome", oc)
	vrt.NoteBytes("bytes", out)
	pl := prefixLen[layout]
	if oc != "ok" || diagnosed() || len(out) < pl+tailLen {
		vrt.Reach("c17d.rejected")
		return
	}
	vrt.Reach("c17d.accepted")
	code := out[pl : len(out)-tailLen]
	inst, ok := x86ref.Decode(code, mode, 0)
	var acc diffAcc
	acc.flag(!ok)
	acc.flag(inst.Len != len(code))
	if k == 16 {
		w := mkStmt("LGDT", mode, M(MemSpec{HasDisp: true, Disp: int64(orgs[layout] + pl + len(code))}))
		w.Want.Ops[0].Size = 0
		st = w
	}
	compareInst(&acc, inst, st.Want)
	acc.eqLE(out[len(out)-2:], int64(orgs[layout]+len(out)-2))
	vrt.Assert(acc.d == 0, "c17.decode")
}
