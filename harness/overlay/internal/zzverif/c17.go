//go:build verif

package zzverif

import (
	"strings"

	"github.com/HobbyOSs/gosk/internal/zzverif/vrt"
)

func init() { vrt.Register("zzverif.VC17", VC17) }

var c17Groups = []string{
	"MOV AX,1 ; MOV EAX,1 ; ADD BX,2 ; PUSH EAX",
	"MOV AX,L ; MOV ECX,L ; CMP WORD [SI],L",
	"MOV AL,[SI] ; MOV [0x0ff0],CX ; ADD ECX,[EBX+4] ; POP BX",
	"HLT ; DB 0x90 ; RET",
}

// layouts: "@1"/"@2" stand for the instruction groups; M1/M2 for their modes
var c17Layouts = []string{
	"@1",                                   // no BITS directive: 16-bit
	"[BITS M1] ; @1",
	"QX EQU 5 ; GLOBAL foo ; [FILE \"a.nas\"] ; here: ; [BITS M1] ; @1",
	"DB 0x55,0xAA ; [BITS M1] ; @1",
	"ORG 0x100 ; RESB 2 ; [BITS M1] ; @1",
	"[BITS M1] ; @1 ; [BITS M2] ; @2",
	"[BITS M1] ; HLT ; DB 0x90 ; [BITS M2] ; @2",
	"[BITS M2] ; [BITS M1] ; @1",
}

// VC17: every instruction is encoded and sized for the mode in force where
// it stands.
func VC17() {
	layout := vrt.Choose("layout", len(c17Layouts))
	g1 := vrt.Choose("g1", len(c17Groups))
	m1 := []string{"16", "32"}[vrt.Choose("m1", 2)]
	m2 := []string{"16", "32"}[vrt.Choose("m2", 2)]
	g2 := (g1 + 1) % len(c17Groups)
	l := vrt.IntRange("L", -40000, 40000)
	lay := c17Layouts[layout]
	if layout == 0 {
		m1 = "16"
	}
	uses2 := strings.Contains(lay, "@2") || strings.Contains(lay, "M2")
	if !uses2 && m2 == "32" {
		vrt.Assume(false)
	}
	render := func(t string, sb *subs) string {
		t = strings.ReplaceAll(t, " ; ", "\n") + "\n"
		for strings.Contains(t, ",L") {
			i := strings.Index(t, ",L")
			t = t[:i+1] + lit(l, sb) + t[i+2:]
		}
		return t
	}
	var sb, sb1, sb2 subs
	text := strings.ReplaceAll(strings.ReplaceAll(lay, "M1", m1), "M2", m2)
	text = strings.ReplaceAll(text, "@1", c17Groups[g1])
	text = strings.ReplaceAll(text, "@2", c17Groups[g2])
	src := render(text+" ; lbl: ; DW lbl", &sb)
	vrt.Note("src", src)
	out, oc := AssembleTK(src, sb.list, "p", "kp")
	dg := diagnosed()
	vrt.ResetDiag()
	// reference: each group alone in its own mode
	r1, rc1 := AssembleTK(render("[BITS "+m1+"] ; "+c17Groups[g1], &sb1), sb1.list, "r1", "k1")
	var r2 []byte
	rc2 := "ok"
	if strings.Contains(lay, "@2") {
		r2, rc2 = AssembleTK(render("[BITS "+m2+"] ; "+c17Groups[g2], &sb2), sb2.list, "r2", "k2")
	}
	vrt.NoteBytes("out", out)
	vrt.NoteBytes("ref1", r1)
	vrt.NoteBytes("ref2", r2)
	if oc != "ok" || dg || rc1 != "ok" || rc2 != "ok" {
		vrt.Reach("c17.rejected")
		return
	}
	vrt.Reach("c17.accepted")
	// expected image: prefix data + group 1 + (middle data) + group 2 + DW lbl
	var want []byte
	org := 0
	switch layout {
	case 3:
		want = append(want, 0x55, 0xaa)
	case 4:
		want = append(want, 0, 0)
		org = 0x100
	}
	if layout == 6 {
		want = append(want, 0xf4, 0x90)
	} else {
		want = append(want, r1...)
	}
	want = append(want, r2...)
	var acc diffAcc
	acc.flag(len(out) != len(want)+2)
	if len(out) == len(want)+2 {
		for i := range want {
			acc.eq(uint64(out[i]), uint64(want[i]))
		}
		acc.eqLE(out[len(want):], int64(org+len(want)))
	}
	vrt.Assert(acc.d == 0, "c17.mode")
}
