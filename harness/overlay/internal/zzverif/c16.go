//go:build verif

package zzverif

import (
	"strings"

	"github.com/HobbyOSs/gosk/internal/zzverif/vrt"
)

func init() { vrt.Register("zzverif.VC16", VC16) }

type c16Prog struct {
	body string
	// offsets of embedded absolute values: width 2 or 4
	abs [][2]int
	n   int
}

// 16-bit programs with label-target branches, label immediates, DW/DD of
// labels and $; abs lists where absolute values are embedded.
var c16Progs = []c16Prog{
	{ // 0
		body: "start: ; MOV AX,start ; JMP over ; DB 1,2,3 ; over: ; HLT ; JMP start ; DW start ; DD over ; DW $ ; MOV SI,msg ; CALL start ; msg: ; DB 0x55",
		abs:  [][2]int{{1, 2}, {11, 2}, {13, 4}, {17, 2}, {20, 2}},
		n:    26,
	},
	{ // 1
		body: "entry: ; MOV BX,table ; JE entry ; table: ; DW entry,table ; DD table ; DW $ ; DB 0x55 ; MOV WORD [0x1000],entry ; JNZ table",
		abs:  [][2]int{{1, 2}, {5, 2}, {7, 2}, {9, 4}, {13, 2}, {20, 2}},
		n:    24,
	},
	{ // 2
		body: "a: ; DB 1,2,3,4,5,6,7,8,9,10,11,12 ; b: ; JMP a ; CALL b ; DW b ; RESB 4 ; c: ; DW c ; JMP c",
		abs:  [][2]int{{17, 2}, {23, 2}},
		n:    27,
	},
}

// VC16: changing ORG by an alignment-preserving delta leaves the length and
// every relative displacement unchanged and adds exactly the delta to every
// embedded absolute value.
func VC16() {
	pi := vrt.Choose("prog", len(c16Progs))
	p := c16Progs[pi]
	kind := vrt.ChooseStr("kind", []string{"symbolic", "none-vs-0"})
	body := strings.ReplaceAll(p.body, " ; ", "\n") + "\n"
	if kind == "none-vs-0" {
		o1, oc1 := AssembleT(body, nil, "a")
		o2, oc2 := AssembleT("ORG 0\n"+body, nil, "b")
		vrt.NoteBytes("a", o1)
		vrt.NoteBytes("b", o2)
		if oc1 != "ok" || oc2 != "ok" {
			vrt.Reach("c16.rejected")
			return
		}
		vrt.Reach("c16.accepted")
		vrt.Assert(string(o1) == string(o2) && len(o1) == p.n, "c16.noorg")
		return
	}
	// origins up to 128 K: labels cross the 64 K line inside the programs
	// (absolute values are compared at their field width)
	org := vrt.IntRange("org", 0, 0x1fff0)
	k := vrt.IntRange("k", 1, 2048)
	d := k * 64
	org2 := org + d
	vrt.Assume(org2 <= 0x1fff0)
	var s1, s2 subs
	src1 := "ORG " + lit(org, &s1) + "\n" + body
	src2 := "ORG " + lit(org2, &s2) + "\n" + body
	vrt.Note("src", src1)
	o1, oc1 := AssembleTK(src1, s1.list, "a", "k1")
	d1 := diagnosed()
	vrt.ResetDiag()
	o2, oc2 := AssembleTK(src2, s2.list, "b", "k2")
	d2 := diagnosed()
	vrt.NoteBytes("a", o1)
	vrt.NoteBytes("b", o2)
	_, _ = d1, d2 // truncation warnings at origins near 64K are not failures
	if oc1 != "ok" {
		vrt.Reach("c16.rejected")
		return
	}
	vrt.Reach("c16.accepted")
	var acc diffAcc
	acc.flag(len(o1) != p.n) // the length does not depend on the origin
	acc.flag(oc2 != "ok")
	acc.flag(len(o2) != p.n)
	if len(o1) == p.n && len(o2) == p.n {
		isAbs := make([]int, p.n)
		for _, a := range p.abs {
			// value in o1 plus d must equal value in o2 (at the field width)
			var v int64
			for b := a[1] - 1; b >= 0; b-- {
				v = v<<8 | int64(o1[a[0]+b])
			}
			acc.eqLE(o2[a[0]:a[0]+a[1]], v+d)
			for b := 0; b < a[1]; b++ {
				isAbs[a[0]+b] = 1
			}
		}
		for i := 0; i < p.n; i++ {
			if isAbs[i] == 0 {
				acc.eq(uint64(o1[i]), uint64(o2[i]))
			}
		}
	}
	vrt.Assert(acc.d == 0, "c16.shift")
}
