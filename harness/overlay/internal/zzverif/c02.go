//go:build verif

package zzverif

import (
	"github.com/HobbyOSs/gosk/internal/zzverif/vrt"
	"github.com/HobbyOSs/gosk/internal/zzverif/x86ref"
)

func init() {
	vrt.Register("zzverif.VC02Shapes", VC02Shapes)
	vrt.Register("zzverif.VC02Carriers", VC02Carriers)
}

var base32 = []string{"", "EAX", "ECX", "EDX", "EBX", "ESP", "EBP", "ESI", "EDI"}
var index32 = []string{"", "EAX", "ECX", "EDX", "EBX", "EBP", "ESI", "EDI"}

// displacement attaches none / "+d" / "-m" with a symbolic value.
func displacement(m MemSpec) MemSpec {
	switch vrt.Choose("dispkind", 3) {
	case 1:
		m.HasDisp = true
		m.Disp = immediate("disp")
	case 2:
		if m.Base == "" && m.Index == "" {
			vrt.Assume(false) // "[-m]" is the same text as "[d]" with d negative
		}
		m.HasDisp = true
		m.NegForm = true
		m.Disp = immediate("disp")
		// "-m" is written with a non-negative magnitude
		vrt.Assume(m.Disp <= 0)
	}
	if m.Base == "" && m.Index == "" && !m.HasDisp {
		vrt.Assume(false)
	}
	return m
}

// shape16 enumerates the 16-bit addressing shapes.
func shape16() MemSpec {
	shapes := []MemSpec{{Base: "BX"}, {Base: "BP"}, {Base: "SI"}, {Base: "DI"},
		{Base: "BX", Index: "SI"}, {Base: "BX", Index: "DI"}, {Base: "BP", Index: "SI"}, {Base: "BP", Index: "DI"}, {}}
	return shapes[vrt.Choose("shape", len(shapes))]
}

// shape32 enumerates 32-bit shapes: every base/index/scale combination in
// the thorough tier; in the quick tier each dimension is swept against fixed
// values of the others.
func shape32() MemSpec {
	scales := []int{0, 1, 2, 4, 8}
	if vrt.Param("allregs") != 0 {
		m := MemSpec{Base: vrt.ChooseStr("base", base32), Index: vrt.ChooseStr("index", index32)}
		if m.Index != "" {
			m.Scale = scales[vrt.Choose("scale", 5)]
		}
		return m
	}
	switch vrt.Choose("sweep", 3) {
	case 0: // all bases, no index / one index
		m := MemSpec{Base: vrt.ChooseStr("base", base32)}
		if vrt.Choose("withindex", 2) == 1 {
			m.Index = "ESI"
			m.Scale = 4
		}
		return m
	case 1: // all indexes against no base / one base
		m := MemSpec{Index: vrt.ChooseStr("index", index32[1:]), Scale: 2}
		if vrt.Choose("withbase", 2) == 1 {
			m.Base = "EBX"
		}
		return m
	default: // all scales
		m := MemSpec{Base: vrt.ChooseStr("base", []string{"", "EDX", "EBP"}), Index: "ECX"}
		m.Scale = scales[vrt.Choose("scale", 5)]
		return m
	}
}

// VC02Shapes: MOV r,[mem] over the addressing shapes with a symbolic
// displacement written as text.
func VC02Shapes() {
	mode := []int{16, 32}[vrt.Choose("mode", 2)]
	var m MemSpec
	if vrt.Choose("addr", 2) == 0 {
		m = shape16()
	} else {
		m = shape32()
	}
	m = displacement(m)
	sz, dir := 16, 0
	if vrt.Param("allregs") != 0 {
		sz = []int{8, 16, 32}[vrt.Choose("size", 3)]
		dir = vrt.Choose("dir", 2)
	}
	reg := regsOf(sz)[2]
	var st Stmt
	if dir == 0 {
		st = mkStmt("MOV", mode, R(reg), M(m))
	} else {
		st = mkStmt("MOV", mode, M(m), R(reg))
	}
	checkStmt(st, mode, "c02.ea")
}

var c02Carriers = []string{"load", "store", "storeimm", "alu_load", "alu_store", "alu_imm", "not", "shift", "push", "pop", "lgdt", "acc_load", "acc_store"}

// VC02Carriers: a few shapes under every carrier instruction.
func VC02Carriers() {
	mode := []int{16, 32}[vrt.Choose("mode", 2)]
	carrier := vrt.ChooseStr("carrier", c02Carriers)
	// (the quick tier's shapes are a prefix of the full list, so that a shape
	// index means the same operand in both tiers)
	shapes := []MemSpec{{Base: "BX"}, {}, {Base: "EBP", Index: "EDI", Scale: 8}, {Index: "ESI", Scale: 4}, {Base: "EAX", Index: "EAX"}, {Base: "BP", Index: "SI"}, {Base: "EBX"}, {Base: "ESP"}, {Index: "EAX", Scale: 4}}
	if vrt.Param("allregs") == 0 {
		shapes = shapes[:5]
	}
	m := shapes[vrt.Choose("shape", len(shapes))]
	m = displacement(m)
	sz := 16
	if vrt.Param("allregs") != 0 {
		sz = []int{8, 16, 32}[vrt.Choose("size", 3)]
	} else if vrt.Choose("size", 2) == 1 {
		sz = 32
	}
	st, ok := c02CarrierStmt(carrier, mode, sz, m)
	if !ok {
		vrt.Assume(false)
	}
	checkStmt(st, mode, "c02.ea")
}

// c02CarrierStmt builds the carrier instruction around memory operand m.
func c02CarrierStmt(carrier string, mode, sz int, m MemSpec) (Stmt, bool) {
	reg := regsOf(sz)[3]
	acc := regsOf(sz)[0]
	mk := m
	mk.SizeKw = kwOf(sz)
	var st Stmt
	switch carrier {
	case "load":
		st = mkStmt("MOV", mode, R(reg), M(m))
	case "store":
		st = mkStmt("MOV", mode, M(m), R(reg))
	case "storeimm":
		st = mkStmt("MOV", mode, M(mk), I(5))
	case "alu_load":
		st = mkStmt("ADD", mode, R(reg), M(m))
	case "alu_store":
		st = mkStmt("XOR", mode, M(m), R(reg))
	case "alu_imm":
		st = mkStmt("CMP", mode, M(mk), I(5))
	case "not":
		st = mkStmt("NOT", mode, M(mk))
	case "shift":
		st = mkStmt("SHL", mode, M(mk), I(3))
		st.Want.Ops[1].Size = 8
	case "push":
		if sz == 8 {
			return Stmt{}, false
		}
		st = mkStmt("PUSH", mode, M(mk))
	case "pop":
		if sz == 8 {
			return Stmt{}, false
		}
		st = mkStmt("POP", mode, M(mk))
	case "lgdt":
		if sz != 16 {
			return Stmt{}, false
		}
		st = mkStmt("LGDT", mode, M(m))
		st.Want.Ops[0].Size = 0
	case "acc_load":
		st = mkStmt("MOV", mode, R(acc), M(m))
	case "acc_store":
		st = mkStmt("MOV", mode, M(m), R(acc))
	}
	return st, true
}

func init() { vrt.Register("zzverif.VC02Label", VC02Label) }

// VC02Label: a label as the address of a direct memory operand ("[lbl]"),
// defined before or after the statement, the origin a solver variable: the
// operand must address exactly the label, under every carrier.
func VC02Label() {
	mode := []int{16, 32}[vrt.Choose("mode", 2)]
	carrier := vrt.ChooseStr("carrier", c02Carriers)
	forward := vrt.Choose("forward", 2) == 1
	sz := []int{8, 16, 32}[vrt.Choose("size", 3)]
	maxOrg := int64(0xff00)
	if mode == 32 {
		maxOrg = 0x7fff0000
	}
	org := vrt.IntRange("org", 0, maxOrg)
	st0, ok := c02CarrierStmt(carrier, mode, sz, MemSpec{Label: "lbl", HasDisp: true})
	if !ok {
		vrt.Assume(false)
	}
	// forward layout in 16-bit mode: optionally a statement stands before the
	// carrier whose pass-1 size has special cases ([BP+SI] needs no
	// displacement byte, [BP] does): the label's address depends on it
	pres := []struct {
		text string
		n    int
	}{{"", 0}, {"MOV AX,[BP+SI]", 2}, {"MOV [BP+DI],CL", 2}, {"MOV AX,[BP]", 3}, {"NOT WORD [BP+DI]", 2}}
	pre := pres[0]
	if forward && mode == 16 {
		pre = pres[vrt.Choose("pre", len(pres))]
	}
	var sb subs
	src := bitsHeader(mode) + "ORG " + lit(org, &sb) + "\n"
	if forward {
		if pre.text != "" {
			src += pre.text + "\n"
		}
		src += st0.Text() + "\nlbl:\nDW 0\n"
	} else {
		src += "lbl:\nDW 0\n" + st0.Text() + "\n"
	}
	vrt.Note("src", src)
	out, oc := AssembleT(src, sb.list, "s")
	vrt.Note("outcome", oc)
	vrt.NoteBytes("bytes", out)
	if oc != "ok" || diagnosed() || len(out) < 3 {
		vrt.Reach("c02l.rejected")
		return
	}
	vrt.Reach("c02l.accepted")
	code := out[2:]
	addr := org
	if forward {
		if len(out) < pre.n+3 {
			vrt.Reach("c02l.rejected")
			return
		}
		code = out[pre.n : len(out)-2]
		addr = org + int64(len(out)-2)
	}
	st, _ := c02CarrierStmt(carrier, mode, sz, MemSpec{Label: "lbl", HasDisp: true, Disp: addr})
	inst, okd := x86ref.Decode(code, mode, 0)
	var acc diffAcc
	acc.flag(!okd)
	acc.flag(inst.Len != len(code))
	compareInst(&acc, inst, st.Want)
	vrt.Assert(acc.d == 0, "c02.label")
}
