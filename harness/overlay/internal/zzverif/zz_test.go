//go:build verif

package zzverif

import (
	"fmt"
	"os"
	"testing"

	"github.com/HobbyOSs/gosk/internal/zzverif/vrt"
)

func TestVerifReplay(t *testing.T) {
	name := os.Getenv("VERIF_HARNESS")
	if name == "" {
		t.Skip("no harness named")
	}
	defer vrt.Cleanup()
	if !Run(name) {
		fmt.Printf("VERIF-ERROR unknown harness %s\n", name)
		os.Exit(99)
	}
	fmt.Println("VERIF-DONE")
}
