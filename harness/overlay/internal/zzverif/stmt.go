//go:build verif

package zzverif

import (
	"strconv"
	"strings"

	"github.com/HobbyOSs/gosk/internal/zzverif/vrt"
	"github.com/HobbyOSs/gosk/internal/zzverif/x86ref"
)

// Source-level operand descriptions and their expected meaning.

type MemSpec struct {
	SizeKw  string // "", "BYTE", "WORD", "DWORD"
	Base    string
	Index   string
	Scale   int // 0 = no scale written
	Disp    int64
	HasDisp bool
	NegForm bool   // write the displacement as "-m" instead of "+d"
	Label   string // write the address as this label ("[lbl]"); Disp is then only the expected value
}

type Opnd struct {
	Kind int // x86ref.K*
	Name string
	Imm  int64
	Mem  MemSpec
}

func R(name string) Opnd { return Opnd{Kind: x86ref.KReg, Name: name} }
func I(v int64) Opnd     { return Opnd{Kind: x86ref.KImm, Imm: v} }
func M(m MemSpec) Opnd   { return Opnd{Kind: x86ref.KMem, Mem: m} }

func dec(v int64) string { return strconv.FormatInt(v, 10) }

// Sub is a placeholder literal of a template source and the value that
// replaces it in the parsed tree.
type Sub struct {
	Placeholder int
	Val         int64
}

type subs struct{ list []Sub }

// lit returns the text of a numeric literal: its decimal numeral, or (when
// building a template) a fresh placeholder recorded in sb.
func lit(v int64, sb *subs) string {
	if sb == nil {
		return dec(v)
	}
	ph := 7770001 + len(sb.list)
	sb.list = append(sb.list, Sub{ph, v})
	return strconv.Itoa(ph)
}

func (m MemSpec) Text() string { return m.text(nil) }

func (m MemSpec) text(sb *subs) string {
	s := ""
	if m.SizeKw != "" {
		s = m.SizeKw + " "
	}
	s += "["
	if m.Label != "" {
		return s + m.Label + "]"
	}
	first := true
	if m.Base != "" {
		s += m.Base
		first = false
	}
	if m.Index != "" {
		if !first {
			s += "+"
		}
		s += m.Index
		if m.Scale != 0 {
			s += "*" + strconv.Itoa(m.Scale)
		}
		first = false
	}
	if m.HasDisp {
		if first {
			s += lit(m.Disp, sb)
		} else if m.NegForm {
			s += "-" + lit(-m.Disp, sb)
		} else {
			s += "+" + lit(m.Disp, sb)
		}
	}
	return s + "]"
}

func (o Opnd) Text() string { return o.text(nil) }

func (o Opnd) text(sb *subs) string {
	switch o.Kind {
	case x86ref.KImm:
		return lit(o.Imm, sb)
	case x86ref.KMem:
		return o.Mem.text(sb)
	}
	return o.Name
}

// addrSizeOf returns the address width implied by the registers of m (0 if
// none is written).
func (m MemSpec) addrSizeOf() int {
	for _, r := range []string{m.Base, m.Index} {
		if r == "" {
			continue
		}
		_, sz, _ := x86ref.RegNum(r)
		return sz
	}
	return 0
}

// WantEA is the linear form the source operand denotes.
func (m MemSpec) WantEA(mode int) x86ref.EA {
	ea := x86ref.EA{AddrSize: m.addrSizeOf()}
	if ea.AddrSize == 0 {
		ea.AddrSize = mode
	}
	if m.Base != "" {
		n, _, _ := x86ref.RegNum(m.Base)
		ea.Coef[n]++
		if n == 4 || n == 5 {
			ea.SegSS = true
		}
	}
	if m.Index != "" {
		n, _, _ := x86ref.RegNum(m.Index)
		sc := m.Scale
		if sc == 0 {
			sc = 1
		}
		ea.Coef[n] += sc
		if m.Base == "" && sc == 1 && (n == 4 || n == 5) {
			// [EBP*1+d]: assemblers differ on whether this is a base (SS) or
			// an index (DS); the property speaks of the address, so the
			// default segment is not compared here
			ea.SegAny = true
		}
	}
	if m.HasDisp {
		ea.Disp = uint32(m.Disp)
	}
	if ea.AddrSize == 16 {
		ea.Disp &= 0xffff
	}
	return ea
}

// Stmt is one instruction statement with its expected semantic tuple.
type Stmt struct {
	Mn   string
	Ops  []Opnd
	Want x86ref.Inst // Op, Ops (Kind/Reg/Size/Imm/EA), NOps, Cond
}

func (s Stmt) Text() string { return s.text(nil) }

// Template returns the statement text with placeholder literals and the
// substitutions that turn the parsed template into the statement.
func (s Stmt) Template() (string, []Sub) {
	var sb subs
	t := s.text(&sb)
	return t, sb.list
}

func (s Stmt) text(sb *subs) string {
	parts := make([]string, len(s.Ops))
	for i, o := range s.Ops {
		parts[i] = o.text(sb)
	}
	if len(parts) == 0 {
		return s.Mn
	}
	return s.Mn + " " + strings.Join(parts, ",")
}

func sizeOfKw(kw string) int {
	switch kw {
	case "BYTE":
		return 8
	case "WORD":
		return 16
	case "DWORD":
		return 32
	}
	return 0
}

// wantOperand converts a source operand to the expected decoded operand.
// opsize is the operand width the statement implies for immediates/memory.
func wantOperand(o Opnd, opsize, mode int) x86ref.Operand {
	switch o.Kind {
	case x86ref.KImm:
		return x86ref.Operand{Kind: x86ref.KImm, Imm: o.Imm, Size: opsize}
	case x86ref.KMem:
		sz := sizeOfKw(o.Mem.SizeKw)
		if sz == 0 {
			sz = opsize
		}
		return x86ref.Operand{Kind: x86ref.KMem, EA: o.Mem.WantEA(mode), Size: sz}
	}
	n, sz, k := x86ref.RegNum(o.Name)
	return x86ref.Operand{Kind: k, Reg: n, Size: sz}
}

// mkStmt builds the statement and its expected tuple.  The operand size is
// taken from the first general register or size keyword present.
func mkStmt(mn string, mode int, ops ...Opnd) Stmt {
	opsize := 0
	for _, o := range ops {
		if o.Kind == x86ref.KReg {
			_, sz, k := x86ref.RegNum(o.Name)
			if k == x86ref.KReg && opsize == 0 {
				opsize = sz
			}
		}
		if o.Kind == x86ref.KMem && o.Mem.SizeKw != "" && opsize == 0 {
			opsize = sizeOfKw(o.Mem.SizeKw)
		}
	}
	if opsize == 0 {
		opsize = mode
	}
	st := Stmt{Mn: mn, Ops: ops}
	st.Want.Op = mn
	st.Want.NOps = len(ops)
	st.Want.OpSize = opsize
	for i, o := range ops {
		st.Want.Ops[i] = wantOperand(o, opsize, mode)
	}
	return st
}

// diffAcc accumulates differences without branching on symbolic values.
type diffAcc struct{ d uint64 }

func (a *diffAcc) eq(x, y uint64) { a.d |= x ^ y }
func (a *diffAcc) flag(bad bool) {
	if bad {
		a.d |= 1
	}
}

// eqLE compares n little-endian bytes with the low bytes of v, byte by byte
// (keeps both sides as plain byte slices of the same term for the solver).
func (a *diffAcc) eqLE(b []byte, v int64) {
	for i := range b {
		a.eq(uint64(b[i]), uint64(byte(v>>(8*uint(i)))))
	}
}

func maskOf(bits int) uint64 {
	if bits >= 64 {
		return ^uint64(0)
	}
	return uint64(1)<<uint(bits) - 1
}

// compareEA adds to acc the differences between two effective addresses.
func compareEA(acc *diffAcc, got, want x86ref.EA) {
	regs := false
	for i := 0; i < 8; i++ {
		acc.flag(got.Coef[i] != want.Coef[i])
		if want.Coef[i] != 0 {
			regs = true
		}
	}
	if regs {
		acc.flag(got.AddrSize != want.AddrSize)
		if !want.SegAny {
			acc.flag(got.SegSS != want.SegSS)
		}
		acc.eq(uint64(got.Disp), uint64(want.Disp))
	} else {
		// absolute address: the offset itself must be the same number
		acc.eq(uint64(got.Disp), uint64(want.Disp))
	}
}

// compareInst adds to acc the differences between a decoded instruction and
// the expected tuple (meaning only: operation, operand roles, register
// numbers and sizes, immediates modulo the operand width, effective address).
func compareInst(acc *diffAcc, got x86ref.Inst, want x86ref.Inst) {
	acc.flag(got.Op != want.Op)
	acc.flag(got.NOps != want.NOps)
	if got.Op == "Jcc" {
		acc.flag(got.Cond != want.Cond)
	}
	for i := 0; i < want.NOps && i < got.NOps; i++ {
		g, w := got.Ops[i], want.Ops[i]
		acc.flag(g.Kind != w.Kind)
		if g.Kind != w.Kind {
			continue
		}
		switch w.Kind {
		case x86ref.KReg:
			acc.flag(g.Reg != w.Reg)
			if want.Op == "MOV" && (want.Ops[1-i%2].Kind == x86ref.KSreg) {
				// MOV r16/r32, Sreg and MOV Sreg, r16/r32 move 16 bits whatever the
				// operand-size attribute; the register width is not compared
				continue
			}
			acc.flag(g.Size != w.Size)
		case x86ref.KSreg, x86ref.KCreg:
			acc.flag(g.Reg != w.Reg)
			if want.NOps == 1 && (want.Op == "PUSH" || want.Op == "POP") {
				// PUSH/POP Sreg moves the stack by the mode's operand size: an
				// operand-size prefix changes the instruction
				acc.flag(got.Has66)
			}
		case x86ref.KImm:
			acc.flag(g.Size != w.Size)
			acc.eq(uint64(g.Imm)&maskOf(w.Size), uint64(w.Imm)&maskOf(w.Size))
		case x86ref.KMem:
			compareEA(acc, g.EA, w.EA)
			if w.Size != 0 && g.Size != 0 {
				acc.flag(g.Size != w.Size)
			}
		case x86ref.KRel:
			acc.eq(uint64(g.Target), uint64(w.Target))
		case x86ref.KFar:
			acc.eq(uint64(g.Sel), uint64(w.Sel))
			acc.eq(uint64(g.Off), uint64(w.Off))
		}
	}
}

// diagnosed reports whether the run produced an error-level diagnostic.  The
// reading is deliberately generous (it can only lose detections, never raise
// a false alarm): besides colog's error/alert headers it accepts any line
// that is not explicitly marked debug/trace/info and mentions an error-like
// keyword ("Error: ...", "failed ...", "unsupported ..."), warnings about
// truncation, and a "GOSK :" line on stdout.
func diagnosed() bool {
	for _, l := range vrt.Diag() {
		ll := strings.ToLower(l)
		if strings.HasPrefix(ll, "stdout: gosk :") {
			return true
		}
		lowLevel := false
		for _, h := range []string{"debug:", "dbg:", "d:", "trace:", "trc:", "t:", "info:", "inf:", "i:"} {
			if strings.HasPrefix(ll, h) {
				lowLevel = true
			}
		}
		if lowLevel {
			continue
		}
		if strings.Contains(ll, "error") || strings.Contains(ll, "failed") || strings.Contains(ll, "not found") ||
			strings.Contains(ll, "unsupported") || strings.Contains(ll, "invalid") || strings.Contains(ll, "fatal") ||
			strings.Contains(ll, "not implemented") || strings.Contains(ll, "unknown") || strings.Contains(ll, "no handler") {
			return true
		}
		if strings.HasPrefix(ll, "warning:") && strings.Contains(ll, "truncat") {
			return true
		}
	}
	return false
}

var r8 = []string{"AL", "CL", "DL", "BL", "AH", "CH", "DH", "BH"}
var r16 = []string{"AX", "CX", "DX", "BX", "SP", "BP", "SI", "DI"}
var r32 = []string{"EAX", "ECX", "EDX", "EBX", "ESP", "EBP", "ESI", "EDI"}
var sregs = []string{"ES", "CS", "SS", "DS", "FS", "GS"}
var cregs = []string{"CR0", "CR2", "CR3", "CR4"}

func regsOf(size int) []string {
	switch size {
	case 8:
		return r8
	case 16:
		return r16
	}
	return r32
}

func kwOf(size int) string {
	switch size {
	case 8:
		return "BYTE"
	case 16:
		return "WORD"
	}
	return "DWORD"
}

func bitsHeader(mode int) string {
	if mode == 32 {
		return "[BITS 32]\n"
	}
	return ""
}
