//go:build verif

// Package x86ref is a reference decoder for the IA-32 subset that gosk can
// emit, written from the opcode map of the Intel SDM (Vol. 2, App. A) and the
// ModR/M and SIB tables (Vol. 2, Tables 2-1, 2-2, 2-3).  It is independent of
// gosk's instruction tables.  It decodes ONE instruction at the start of a
// byte string into a semantic tuple; any valid encoding of an instruction
// decodes to the same tuple.
package x86ref

// Operand kinds.
const (
	KNone  = iota
	KReg   // general register: Reg number 0..7, Size 8/16/32
	KSreg  // segment register ES CS SS DS FS GS = 0..5
	KCreg  // control register CRn
	KImm   // immediate: Imm (sign-extended from its encoded width), Size = operand width in bits
	KMem   // memory operand: EA, Size = access width (0 if the instruction does not fix it)
	KRel   // relative branch: Target = next IP + disp (mod 2^opsize)
	KFar   // far pointer: Sel:Off
	KConst // implicit constant (shift by 1, INT3)
)

// EA is an effective address as a linear form over the eight general
// registers of the address width, plus a displacement.
type EA struct {
	AddrSize int    // 16 or 32
	Coef     [8]int // coefficient of register number i (at AddrSize)
	Disp     uint32 // displacement mod 2^AddrSize
	SegSS    bool   // default segment is SS (base is (E)BP or (E)SP)
	SegAny   bool   // (expected side only) the default segment is not compared
}

type Operand struct {
	Kind   int
	Reg    int
	Size   int
	Imm    int64
	EA     EA
	Target uint32
	Sel    uint16
	Off    uint32
}

type Inst struct {
	Len    int
	Op     string // canonical mnemonic; conditional jumps are "Jcc" with Cond set
	Cond   int    // condition code 0..15 for Jcc
	OpSize int    // operand size attribute in force (16/32) or 8 for byte forms
	Ops    [3]Operand
	NOps   int
	Seg    int // segment override prefix, -1 if none
	Has66  bool
	Has67  bool
	Rep    byte // F2/F3 or 0
	Lock   bool
}

var aluNames = [8]string{"ADD", "OR", "ADC", "SBB", "AND", "SUB", "XOR", "CMP"}
var shiftNames = [8]string{"ROL", "ROR", "RCL", "RCR", "SHL", "SHR", "SAL", "SAR"}
var grp3Names = [8]string{"TEST", "TEST", "NOT", "NEG", "MUL", "IMUL", "DIV", "IDIV"}

type dec struct {
	b    []byte
	pos  int
	ok   bool
	mode int // 16 or 32
	osz  int
	asz  int
	ip   uint32 // address of the instruction (for relative targets)
}

func (d *dec) u8() byte {
	if d.pos >= len(d.b) {
		d.ok = false
		return 0
	}
	c := d.b[d.pos]
	d.pos++
	return c
}

func (d *dec) i8() int64   { return int64(int8(d.u8())) }
func (d *dec) u16() uint16 { lo := d.u8(); hi := d.u8(); return uint16(lo) | uint16(hi)<<8 }
func (d *dec) u32() uint32 {
	a := d.u8()
	b := d.u8()
	c := d.u8()
	e := d.u8()
	return uint32(a) | uint32(b)<<8 | uint32(c)<<16 | uint32(e)<<24
}

// imm reads an immediate of the given width in bits, sign-extended.
func (d *dec) imm(bits int) int64 {
	switch bits {
	case 8:
		return d.i8()
	case 16:
		return int64(int16(d.u16()))
	default:
		return int64(int32(d.u32()))
	}
}

// modrm decodes a ModR/M byte (plus SIB and displacement); returns the reg
// field and the r/m operand (register of width size, or memory).
func (d *dec) modrm(size int) (reg int, rm Operand) {
	m := d.u8()
	mod := int(m >> 6)
	reg = int(m>>3) & 7
	r := int(m & 7)
	if mod == 3 {
		return reg, Operand{Kind: KReg, Reg: r, Size: size}
	}
	ea := EA{AddrSize: d.asz}
	if d.asz == 16 {
		// Table 2-1
		switch r {
		case 0:
			ea.Coef[3]++
			ea.Coef[6]++ // BX+SI
		case 1:
			ea.Coef[3]++
			ea.Coef[7]++ // BX+DI
		case 2:
			ea.Coef[5]++
			ea.Coef[6]++
			ea.SegSS = true // BP+SI
		case 3:
			ea.Coef[5]++
			ea.Coef[7]++
			ea.SegSS = true // BP+DI
		case 4:
			ea.Coef[6]++ // SI
		case 5:
			ea.Coef[7]++ // DI
		case 6:
			if mod == 0 {
				ea.Disp = uint32(d.u16())
				return reg, Operand{Kind: KMem, EA: ea, Size: size}
			}
			ea.Coef[5]++
			ea.SegSS = true // BP
		case 7:
			ea.Coef[3]++ // BX
		}
		switch mod {
		case 1:
			ea.Disp = uint32(uint16(d.i8()))
		case 2:
			ea.Disp = uint32(d.u16())
		}
		return reg, Operand{Kind: KMem, EA: ea, Size: size}
	}
	// Table 2-2
	base := r
	hasBase := true
	if r == 4 {
		// SIB, Table 2-3
		s := d.u8()
		scale := 1 << (s >> 6)
		idx := int(s>>3) & 7
		base = int(s & 7)
		if idx != 4 {
			ea.Coef[idx] += scale
		}
		if base == 5 && mod == 0 {
			hasBase = false
			ea.Disp = d.u32()
		}
	} else if r == 5 && mod == 0 {
		hasBase = false
		ea.Disp = d.u32()
	}
	if hasBase {
		ea.Coef[base]++
		if base == 4 || base == 5 {
			ea.SegSS = true
		}
	}
	switch mod {
	case 1:
		ea.Disp = uint32(int32(d.i8()))
	case 2:
		ea.Disp = d.u32()
	}
	return reg, Operand{Kind: KMem, EA: ea, Size: size}
}

func reg(n, size int) Operand { return Operand{Kind: KReg, Reg: n, Size: size} }

func (d *dec) immOp(bits, size int) Operand {
	return Operand{Kind: KImm, Imm: d.imm(bits), Size: size}
}

// Decode decodes one instruction at b[0:], assumed to be located at address
// ip, in a code segment of the given default size (16 or 32).
func Decode(b []byte, mode int, ip uint32) (Inst, bool) {
	d := &dec{b: b, ok: true, mode: mode, osz: mode, asz: mode, ip: ip}
	in := Inst{Seg: -1}
	// prefixes
	for {
		if d.pos >= len(b) {
			return in, false
		}
		c := b[d.pos]
		switch c {
		case 0x66:
			in.Has66 = true
			d.osz = 48 - mode
		case 0x67:
			in.Has67 = true
			d.asz = 48 - mode
		case 0x26:
			in.Seg = 0
		case 0x2e:
			in.Seg = 1
		case 0x36:
			in.Seg = 2
		case 0x3e:
			in.Seg = 3
		case 0x64:
			in.Seg = 4
		case 0x65:
			in.Seg = 5
		default:
			goto opcode
		}
		d.pos++
	}
opcode:
	op := d.u8()
	osz := d.osz
	in.OpSize = osz
	set := func(name string, ops ...Operand) {
		in.Op = name
		in.NOps = len(ops)
		for i, o := range ops {
			in.Ops[i] = o
		}
	}
	rel := func(bits int) Operand {
		disp := d.imm(bits)
		next := d.ip + uint32(d.pos)
		t := next + uint32(disp)
		if osz == 16 {
			t &= 0xffff
		}
		return Operand{Kind: KRel, Target: t, Size: bits}
	}
	switch {
	case op < 0x40 && op&7 < 6:
		name := aluNames[op>>3]
		switch op & 7 {
		case 0:
			in.OpSize = 8
			r, rm := d.modrm(8)
			set(name, rm, reg(r, 8))
		case 1:
			r, rm := d.modrm(osz)
			set(name, rm, reg(r, osz))
		case 2:
			in.OpSize = 8
			r, rm := d.modrm(8)
			set(name, reg(r, 8), rm)
		case 3:
			r, rm := d.modrm(osz)
			set(name, reg(r, osz), rm)
		case 4:
			in.OpSize = 8
			set(name, reg(0, 8), d.immOp(8, 8))
		case 5:
			set(name, reg(0, osz), d.immOp(osz, osz))
		}
	case op == 0x06 || op == 0x0e || op == 0x16 || op == 0x1e:
		set("PUSH", Operand{Kind: KSreg, Reg: int(op >> 3), Size: 16})
	case op == 0x07 || op == 0x17 || op == 0x1f:
		set("POP", Operand{Kind: KSreg, Reg: int(op >> 3), Size: 16})
	case op == 0x27:
		set("DAA")
	case op == 0x2f:
		set("DAS")
	case op == 0x37:
		set("AAA")
	case op == 0x3f:
		set("AAS")
	case op >= 0x40 && op <= 0x47:
		set("INC", reg(int(op&7), osz))
	case op >= 0x48 && op <= 0x4f:
		set("DEC", reg(int(op&7), osz))
	case op >= 0x50 && op <= 0x57:
		set("PUSH", reg(int(op&7), osz))
	case op >= 0x58 && op <= 0x5f:
		set("POP", reg(int(op&7), osz))
	case op == 0x60:
		set("PUSHA")
	case op == 0x61:
		set("POPA")
	case op == 0x68:
		set("PUSH", d.immOp(osz, osz))
	case op == 0x6a:
		set("PUSH", d.immOp(8, osz))
	case op == 0x69:
		r, rm := d.modrm(osz)
		set("IMUL", reg(r, osz), rm, d.immOp(osz, osz))
	case op == 0x6b:
		r, rm := d.modrm(osz)
		set("IMUL", reg(r, osz), rm, d.immOp(8, osz))
	case op >= 0x70 && op <= 0x7f:
		in.Cond = int(op & 15)
		set("Jcc", rel(8))
	case op == 0x80 || op == 0x82:
		in.OpSize = 8
		r, rm := d.modrm(8)
		set(aluNames[r], rm, d.immOp(8, 8))
	case op == 0x81:
		r, rm := d.modrm(osz)
		set(aluNames[r], rm, d.immOp(osz, osz))
	case op == 0x83:
		r, rm := d.modrm(osz)
		set(aluNames[r], rm, d.immOp(8, osz))
	case op == 0x84:
		in.OpSize = 8
		r, rm := d.modrm(8)
		set("TEST", rm, reg(r, 8))
	case op == 0x85:
		r, rm := d.modrm(osz)
		set("TEST", rm, reg(r, osz))
	case op == 0x86:
		in.OpSize = 8
		r, rm := d.modrm(8)
		set("XCHG", rm, reg(r, 8))
	case op == 0x87:
		r, rm := d.modrm(osz)
		set("XCHG", rm, reg(r, osz))
	case op == 0x88:
		in.OpSize = 8
		r, rm := d.modrm(8)
		set("MOV", rm, reg(r, 8))
	case op == 0x89:
		r, rm := d.modrm(osz)
		set("MOV", rm, reg(r, osz))
	case op == 0x8a:
		in.OpSize = 8
		r, rm := d.modrm(8)
		set("MOV", reg(r, 8), rm)
	case op == 0x8b:
		r, rm := d.modrm(osz)
		set("MOV", reg(r, osz), rm)
	case op == 0x8c:
		r, rm := d.modrm(16)
		if r > 5 {
			d.ok = false
		}
		if rm.Kind == KReg {
			rm.Size = osz
		}
		in.OpSize = 16
		set("MOV", rm, Operand{Kind: KSreg, Reg: r, Size: 16})
	case op == 0x8e:
		r, rm := d.modrm(16)
		if r > 5 || r == 1 {
			d.ok = false
		}
		in.OpSize = 16
		set("MOV", Operand{Kind: KSreg, Reg: r, Size: 16}, rm)
	case op == 0x8d:
		r, rm := d.modrm(0)
		if rm.Kind != KMem {
			d.ok = false
		}
		set("LEA", reg(r, osz), rm)
	case op == 0x8f:
		r, rm := d.modrm(osz)
		if r != 0 {
			d.ok = false
		}
		set("POP", rm)
	case op == 0x90:
		set("NOP")
	case op >= 0x91 && op <= 0x97:
		set("XCHG", reg(0, osz), reg(int(op&7), osz))
	case op == 0x98:
		if osz == 16 {
			set("CBW")
		} else {
			set("CWDE")
		}
	case op == 0x99:
		if osz == 16 {
			set("CWD")
		} else {
			set("CDQ")
		}
	case op == 0x9b:
		set("WAIT")
	case op == 0x9c:
		set("PUSHF")
	case op == 0x9d:
		set("POPF")
	case op == 0x9e:
		set("SAHF")
	case op == 0x9f:
		set("LAHF")
	case op >= 0xa0 && op <= 0xa3:
		ea := EA{AddrSize: d.asz}
		if d.asz == 16 {
			ea.Disp = uint32(d.u16())
		} else {
			ea.Disp = d.u32()
		}
		sz := osz
		if op&1 == 0 {
			sz = 8
			in.OpSize = 8
		}
		m := Operand{Kind: KMem, EA: ea, Size: sz}
		if op < 0xa2 {
			set("MOV", reg(0, sz), m)
		} else {
			set("MOV", m, reg(0, sz))
		}
	case op == 0xa8:
		in.OpSize = 8
		set("TEST", reg(0, 8), d.immOp(8, 8))
	case op == 0xa9:
		set("TEST", reg(0, osz), d.immOp(osz, osz))
	case op >= 0xb0 && op <= 0xb7:
		in.OpSize = 8
		set("MOV", reg(int(op&7), 8), d.immOp(8, 8))
	case op >= 0xb8 && op <= 0xbf:
		set("MOV", reg(int(op&7), osz), d.immOp(osz, osz))
	case op == 0xc0 || op == 0xc1 || (op >= 0xd0 && op <= 0xd3):
		sz := osz
		if op&1 == 0 {
			sz = 8
			in.OpSize = 8
		}
		r, rm := d.modrm(sz)
		var cnt Operand
		switch {
		case op < 0xd0:
			cnt = Operand{Kind: KImm, Imm: int64(d.u8()), Size: 8}
		case op < 0xd2:
			cnt = Operand{Kind: KImm, Imm: 1, Size: 8}
		default:
			cnt = reg(1, 8) // CL
		}
		set(shiftNames[r], rm, cnt)
	case op == 0xc2:
		set("RET", Operand{Kind: KImm, Imm: int64(d.u16()), Size: 16})
	case op == 0xc3:
		set("RET")
	case op == 0xca:
		set("RETF", Operand{Kind: KImm, Imm: int64(d.u16()), Size: 16})
	case op == 0xcb:
		set("RETF")
	case op == 0xc6:
		in.OpSize = 8
		r, rm := d.modrm(8)
		if r != 0 {
			d.ok = false
		}
		set("MOV", rm, d.immOp(8, 8))
	case op == 0xc7:
		r, rm := d.modrm(osz)
		if r != 0 {
			d.ok = false
		}
		set("MOV", rm, d.immOp(osz, osz))
	case op == 0xc9:
		set("LEAVE")
	case op == 0xcc:
		set("INT", Operand{Kind: KImm, Imm: 3, Size: 8})
	case op == 0xcd:
		set("INT", Operand{Kind: KImm, Imm: int64(d.u8()), Size: 8})
	case op == 0xce:
		set("INTO")
	case op == 0xcf:
		set("IRET")
	case op == 0x6c:
		in.OpSize = 8
		set("INSB")
	case op == 0x6d:
		set("INSW") // INSW / INSD by OpSize
	case op == 0x6e:
		in.OpSize = 8
		set("OUTSB")
	case op == 0x6f:
		set("OUTSW")
	case op == 0xa4:
		in.OpSize = 8
		set("MOVSB")
	case op == 0xa5:
		set("MOVSW")
	case op == 0xa6:
		in.OpSize = 8
		set("CMPSB")
	case op == 0xa7:
		set("CMPSW")
	case op == 0xaa:
		in.OpSize = 8
		set("STOSB")
	case op == 0xab:
		set("STOSW")
	case op == 0xac:
		in.OpSize = 8
		set("LODSB")
	case op == 0xad:
		set("LODSW")
	case op == 0xae:
		in.OpSize = 8
		set("SCASB")
	case op == 0xaf:
		set("SCASW")
	case op == 0xd7:
		set("XLATB")
	case op == 0xd4:
		set("AAM", Operand{Kind: KImm, Imm: int64(d.u8()), Size: 8})
	case op == 0xd5:
		set("AAD", Operand{Kind: KImm, Imm: int64(d.u8()), Size: 8})
	case op == 0xe4:
		in.OpSize = 8
		set("IN", reg(0, 8), Operand{Kind: KImm, Imm: int64(d.u8()), Size: 8})
	case op == 0xe5:
		set("IN", reg(0, osz), Operand{Kind: KImm, Imm: int64(d.u8()), Size: 8})
	case op == 0xe6:
		in.OpSize = 8
		set("OUT", Operand{Kind: KImm, Imm: int64(d.u8()), Size: 8}, reg(0, 8))
	case op == 0xe7:
		set("OUT", Operand{Kind: KImm, Imm: int64(d.u8()), Size: 8}, reg(0, osz))
	case op == 0xec:
		in.OpSize = 8
		set("IN", reg(0, 8), reg(2, 16))
	case op == 0xed:
		set("IN", reg(0, osz), reg(2, 16))
	case op == 0xee:
		in.OpSize = 8
		set("OUT", reg(2, 16), reg(0, 8))
	case op == 0xef:
		set("OUT", reg(2, 16), reg(0, osz))
	case op == 0xe8:
		set("CALL", rel(osz))
	case op == 0xe9:
		set("JMP", rel(osz))
	case op == 0xea:
		var off uint32
		if osz == 16 {
			off = uint32(d.u16())
		} else {
			off = d.u32()
		}
		sel := d.u16()
		set("JMPF", Operand{Kind: KFar, Sel: sel, Off: off, Size: osz})
	case op == 0xeb:
		set("JMP", rel(8))
	case op == 0xf0:
		set("LOCK")
	case op == 0xf2:
		set("REPNE")
	case op == 0xf3:
		set("REP")
	case op == 0xf4:
		set("HLT")
	case op == 0xf5:
		set("CMC")
	case op == 0xf6 || op == 0xf7:
		sz := osz
		if op == 0xf6 {
			sz = 8
			in.OpSize = 8
		}
		r, rm := d.modrm(sz)
		if r < 2 {
			set("TEST", rm, d.immOp(sz, sz))
		} else {
			set(grp3Names[r], rm)
		}
	case op == 0xf8:
		set("CLC")
	case op == 0xf9:
		set("STC")
	case op == 0xfa:
		set("CLI")
	case op == 0xfb:
		set("STI")
	case op == 0xfc:
		set("CLD")
	case op == 0xfd:
		set("STD")
	case op == 0xfe:
		in.OpSize = 8
		r, rm := d.modrm(8)
		switch r {
		case 0:
			set("INC", rm)
		case 1:
			set("DEC", rm)
		default:
			d.ok = false
		}
	case op == 0xff:
		r, rm := d.modrm(osz)
		switch r {
		case 0:
			set("INC", rm)
		case 1:
			set("DEC", rm)
		case 2:
			set("CALLM", rm)
		case 4:
			set("JMPM", rm)
		case 6:
			set("PUSH", rm)
		default:
			d.ok = false
		}
	case op == 0x0f:
		op2 := d.u8()
		switch {
		case op2 == 0x01:
			r, rm := d.modrm(0)
			if rm.Kind != KMem {
				d.ok = false
			}
			switch r {
			case 0:
				set("SGDT", rm)
			case 1:
				set("SIDT", rm)
			case 2:
				set("LGDT", rm)
			case 3:
				set("LIDT", rm)
			default:
				d.ok = false
			}
		case op2 == 0x06:
			set("CLTS")
		case op2 == 0x08:
			set("INVD")
		case op2 == 0x09:
			set("WBINVD")
		case op2 == 0x0b:
			set("UD2")
		case op2 == 0x20:
			r, rm := d.modrm(32)
			if rm.Kind != KReg {
				d.ok = false
			}
			in.OpSize = 32
			set("MOV", rm, Operand{Kind: KCreg, Reg: r, Size: 32})
		case op2 == 0x22:
			r, rm := d.modrm(32)
			if rm.Kind != KReg {
				d.ok = false
			}
			in.OpSize = 32
			set("MOV", Operand{Kind: KCreg, Reg: r, Size: 32}, rm)
		case op2 == 0x30:
			set("WRMSR")
		case op2 == 0x31:
			set("RDTSC")
		case op2 == 0x32:
			set("RDMSR")
		case op2 == 0x33:
			set("RDPMC")
		case op2 >= 0x80 && op2 <= 0x8f:
			in.Cond = int(op2 & 15)
			set("Jcc", rel(osz))
		case op2 == 0xa0:
			set("PUSH", Operand{Kind: KSreg, Reg: 4, Size: 16})
		case op2 == 0xa1:
			set("POP", Operand{Kind: KSreg, Reg: 4, Size: 16})
		case op2 == 0xa2:
			set("CPUID")
		case op2 == 0xa8:
			set("PUSH", Operand{Kind: KSreg, Reg: 5, Size: 16})
		case op2 == 0xa9:
			set("POP", Operand{Kind: KSreg, Reg: 5, Size: 16})
		case op2 == 0xaf:
			r, rm := d.modrm(osz)
			set("IMUL", reg(r, osz), rm)
		case op2 == 0xaa:
			set("RSM")
		default:
			d.ok = false
		}
	default:
		d.ok = false
	}
	in.Len = d.pos
	if in.Op == "" {
		d.ok = false
	}
	return in, d.ok
}

// CondOf maps a conditional-jump mnemonic to its condition code (SDM Vol. 2,
// App. B, Table B-10: tttn encoding), or -1.
func CondOf(mnemonic string) int {
	switch mnemonic {
	case "JO":
		return 0
	case "JNO":
		return 1
	case "JB", "JC", "JNAE":
		return 2
	case "JAE", "JNB", "JNC":
		return 3
	case "JE", "JZ":
		return 4
	case "JNE", "JNZ":
		return 5
	case "JBE", "JNA":
		return 6
	case "JA", "JNBE":
		return 7
	case "JS":
		return 8
	case "JNS":
		return 9
	case "JP", "JPE":
		return 10
	case "JNP", "JPO":
		return 11
	case "JL", "JNGE":
		return 12
	case "JGE", "JNL":
		return 13
	case "JLE", "JNG":
		return 14
	case "JG", "JNLE":
		return 15
	}
	return -1
}

// RegNum returns (number, size in bits, kind) of a register name.
func RegNum(name string) (int, int, int) {
	r8 := []string{"AL", "CL", "DL", "BL", "AH", "CH", "DH", "BH"}
	r16 := []string{"AX", "CX", "DX", "BX", "SP", "BP", "SI", "DI"}
	r32 := []string{"EAX", "ECX", "EDX", "EBX", "ESP", "EBP", "ESI", "EDI"}
	sr := []string{"ES", "CS", "SS", "DS", "FS", "GS"}
	for i := 0; i < 8; i++ {
		if r8[i] == name {
			return i, 8, KReg
		}
		if r16[i] == name {
			return i, 16, KReg
		}
		if r32[i] == name {
			return i, 32, KReg
		}
	}
	for i := range sr {
		if sr[i] == name {
			return i, 16, KSreg
		}
	}
	switch name {
	case "CR0":
		return 0, 32, KCreg
	case "CR2":
		return 2, 32, KCreg
	case "CR3":
		return 3, 32, KCreg
	case "CR4":
		return 4, 32, KCreg
	}
	return -1, 0, KNone
}
