//go:build verif

package zzverif

import (
	"fmt"
	"os"
	"strconv"
	"strings"

	"github.com/HobbyOSs/gosk/internal/zzverif/vrt"
)

func init() {
	vrt.Register("zzverif.VC19Smoke", VC19Smoke)
	vrt.Register("zzverif.VC19Args", VC19Args)
	vrt.Register("zzverif.VC19ParseErr", VC19ParseErr)
	vrt.Register("zzverif.VC19Charset", VC19Charset)
	vrt.Register("zzverif.VC19Chunk", VC19Chunk)
	vrt.Register("zzverif.VC19Equiv", VC19Equiv)
}

// The command line is driven through vrt.RunCLI: under the engine the real
// main() of cmd/gosk is executed symbolically in place (flag parsing, the
// Shift_JIS/UTF-8 decoding step, gen.Parse, frontend.Exec, os.Exit as the
// status); natively the binary built from /repo is executed.

// VC19Smoke: the plain success path (engine self-test of the CLI model).
func VC19Smoke() {
	src := vrt.TempFile("a.nas")
	out := vrt.TempFile("a.bin")
	if err := os.WriteFile(src, []byte("DB 1,2\nMOV AX,1 ; \x83\x5c\x95\x5c\n"), 0o644); err != nil {
		panic(err)
	}
	code, _ := vrt.RunCLI([]string{src, out})
	vrt.Note("code", strconv.Itoa(code))
	vrt.Assert(code == 0, "c19.smoke.exit0")
	b, err := os.ReadFile(out)
	vrt.Assert(err == nil, "c19.smoke.outfile")
	vrt.NoteBytes("out", b)
	vrt.Assert(len(b) == 5 && b[0] == 1 && b[1] == 2 && b[2] == 0xb8, "c19.smoke.bytes")
	vrt.Reach("c19.smoke.end")
}

const (
	c19ProgA = "DB 1,2\nMOV AX,1\n"          // image: 01 02 b8 01 00
	c19ProgB = "DB 9,9,9,9,9,9,9,9,9\nHLT\n" // a longer image: a stale tail would show
	// an object-format source: its writer opens the output on its own
	c19ProgC = "[FORMAT \"WCOFF\"]\n[BITS 32]\n[FILE \"c.nas\"]\nGLOBAL _f\n[SECTION .text]\n_f:\nMOV EAX,1\nRET\n"
)

// fileState reads a file for comparison: "absent", or "=" + contents.
func fileState(p string) string {
	b, err := os.ReadFile(p)
	if err != nil {
		return "absent"
	}
	return "=" + string(b)
}

// VC19Args: exit status and output-file contract over argument vectors of
// length 0..4 whose elements are existing / missing / directory / uncreatable
// paths.
func VC19Args() {
	dir := vrt.TempFile("sub")
	vrt.MkDir(dir)
	paths := map[string]string{
		"src-ok":       vrt.TempFile("ok.nas"),
		"src-coff":     vrt.TempFile("obj.nas"),
		"missing":      vrt.TempFile("missing.nas"),
		"dir":          dir,
		"out-new":      vrt.TempFile("new.bin"),
		"out-existing": vrt.TempFile("old.bin"),
		"out-nodir":    vrt.TempFile("nodir") + "/o.bin",
	}
	kinds := []string{"src-ok", "missing", "dir", "out-new", "out-existing", "out-nodir", "src-coff"}
	if err := os.WriteFile(paths["src-ok"], []byte(c19ProgA), 0o644); err != nil {
		panic(err)
	}
	if err := os.WriteFile(paths["src-coff"], []byte(c19ProgC), 0o644); err != nil {
		panic(err)
	}
	// the pre-existing output is itself a valid (longer) program
	if err := os.WriteFile(paths["out-existing"], []byte(c19ProgB), 0o644); err != nil {
		panic(err)
	}
	n := vrt.Choose("argc", 5)
	var argv, ks []string
	for i := 0; i < n; i++ {
		k := vrt.ChooseStr("arg"+strconv.Itoa(i), kinds)
		ks = append(ks, k)
		argv = append(argv, paths[k])
	}
	before := map[string]string{}
	for _, k := range kinds {
		before[k] = fileState(paths[k])
	}
	// the in-process API's image of each program (the CLI must agree with it)
	type refs struct {
		a, b, c    []byte
		oa, ob, oc string
	}
	r := vrt.Once("c19refs", func() any {
		var r refs
		r.a, r.oa = Assemble(c19ProgA, "refA")
		r.b, r.ob = Assemble(c19ProgB, "refB")
		r.c, r.oc = Assemble(c19ProgC, "refC")
		return r
	}).(refs)
	imgA, imgB, imgC := r.a, r.b, r.c
	vrt.Assume(r.oa == "ok" && r.ob == "ok" && r.oc == "ok")
	vrt.ResetDiag()

	code, text := vrt.RunCLI(argv)
	vrt.Note("code", strconv.Itoa(code))
	vrt.Note("argv", strings.Join(ks, " "))

	want := 0
	var img []byte
	switch {
	case n < 2:
		want = 16
	default:
		switch ks[0] {
		case "missing", "out-new", "out-nodir", "dir":
			want = 17
		case "src-ok":
			img = imgA
		case "out-existing":
			img = imgB
		case "src-coff":
			img = imgC
		}
		if want == 0 {
			switch ks[1] {
			case "dir", "out-nodir":
				want = 17
			}
		}
	}
	vrt.Assert(code == want, "c19.args.status")
	if want != 0 {
		vrt.Assert(len(text) > 0, "c19.args.message")
	}
	for _, k := range kinds {
		after := fileState(paths[k])
		if want == 0 && k == ks[1] {
			// success: exactly the assembled bytes, nothing stale after them
			vrt.Assert(after == "="+string(img), "c19.args.exact-image")
			continue
		}
		// every other file — and every file of a failed run — is as it was:
		// nothing is created, truncated or partially written
		vrt.Assert(after == before[k], "c19.args.untouched")
	}
	vrt.Reach("c19.args.end")
}

// VC19ParseErr: a syntax error ends the run with a non-zero status and a
// message naming the position (line:col and byte offset) of the offending
// character; the output file is not touched.
func VC19ParseErr() {
	bads := []struct {
		line string
		at   int // index of the offending character in the line
	}{
		{"MOV AX,,1", 7},
		{"DB 1 2", 5},
		{"MOV AX,1)", 8},
		{"]", 0},
		{"DB )", 3},
		{"  JMP @@", 6},
	}
	goods := []string{"DB 1", "MOV AX,1", "lbl:", "; comment only", "", "ADD BX,2"}
	k := vrt.Choose("before", 4)
	after := vrt.Choose("after", 2)
	bi := vrt.Choose("bad", len(bads))
	eol := []string{"\n", "\r\n"}[vrt.Choose("eol", 2)]
	rot := vrt.Choose("rot", len(goods))
	var sb strings.Builder
	for i := 0; i < k; i++ {
		sb.WriteString(goods[(rot+i)%len(goods)] + eol)
	}
	off := sb.Len() + bads[bi].at
	sb.WriteString(bads[bi].line + eol)
	for i := 0; i < after; i++ {
		sb.WriteString("DB 3" + eol)
	}
	src := vrt.TempFile("bad.nas")
	out := vrt.TempFile("bad.bin")
	if err := os.WriteFile(src, []byte(sb.String()), 0o644); err != nil {
		panic(err)
	}
	pre := vrt.Choose("out-exists", 2) == 1
	if pre {
		os.WriteFile(out, []byte(c19ProgB), 0o644)
	}
	before := fileState(out)
	code, text := vrt.RunCLI([]string{src, out})
	vrt.Note("code", strconv.Itoa(code))
	vrt.Note("where", fmt.Sprintf("%d:%d (%d)", k+1, bads[bi].at+1, off))
	vrt.Assert(code != 0, "c19.parse.nonzero")
	// the position in any of the usual spellings: line:col, "line N", or the byte offset
	line, col := k+1, bads[bi].at+1
	posGiven := strings.Contains(text, fmt.Sprintf("%d:%d", line, col)) ||
		strings.Contains(text, fmt.Sprintf("line %d", line)) ||
		strings.Contains(text, fmt.Sprintf("(%d)", off))
	vrt.Assert(posGiven, "c19.parse.position")
	vrt.Assert(fileState(out) == before, "c19.parse.output-untouched")
	vrt.Reach("c19.parse.end")
}

// byte classes of the source-decoding step (Shift_JIS lead/trail structure,
// half-width katakana, UTF-8 lead/continuation ranges all fall inside them);
// together they cover every byte value but LF and CR
var c19Classes = [][2]byte{
	{0x00, 0x09}, {0x0b, 0x0c}, {0x0e, 0x1f}, {0x20, 0x3f}, {0x40, 0x7e}, {0x7f, 0x80},
	{0x81, 0x9f}, {0xa0, 0xa0}, {0xa1, 0xdf}, {0xe0, 0xfc}, {0xfd, 0xff},
}

func c19Bytes(n int, prefix string) []byte {
	cb := make([]byte, n)
	for i := range cb {
		cl := c19Classes[vrt.Choose(prefix+"class"+strconv.Itoa(i), len(c19Classes))]
		cb[i] = vrt.Byte(prefix+strconv.Itoa(i), cl[0], cl[1])
	}
	return cb
}

// VC19Charset: a comment holding arbitrary bytes — every Shift_JIS and
// UTF-8 byte sequence of the bounded length is among them, including
// double-byte characters whose trail byte is 0x5c or 0x7c, half-width
// katakana, truncated and invalid sequences — assembles, through the command
// line, to exactly the bytes of the comment-free form.
func VC19Charset() {
	n := 1 + vrt.Choose("n", vrt.Param("maxbytes"))
	place := vrt.ChooseStr("place", []string{"mid", "eof", "own-line", "far"})
	cb := c19Bytes(n, "b")
	var text []byte
	switch place {
	case "far":
		// the first non-ASCII byte lies beyond the first kilobyte of the file
		text = append([]byte("; "+strings.Repeat("-", 1100)+"\nMOV AX,1 ;"), cb...)
		text = append(text, "\nDB 2\n"...)
	case "mid":
		text = append([]byte("MOV AX,1 ;"), cb...)
		text = append(text, "\nDB 2\n"...)
	case "eof":
		text = append([]byte("MOV AX,1\nDB 2 ;"), cb...)
	case "own-line":
		text = append([]byte("MOV AX,1\n#"), cb...)
		text = append(text, "\nDB 2\n"...)
	}
	c19CheckComment(text, "c19.charset")
}

func c19CheckComment(text []byte, id string) {
	src := vrt.TempFile("c.nas")
	out := vrt.TempFile("c.bin")
	if err := os.WriteFile(src, text, 0o644); err != nil {
		panic(err)
	}
	code, _ := vrt.RunCLI([]string{src, out})
	vrt.Note("code", strconv.Itoa(code))
	vrt.Assert(code == 0, id+".exit0")
	b, err := os.ReadFile(out)
	vrt.Assert(err == nil, id+".outfile")
	vrt.NoteBytes("out", b)
	vrt.Assert(len(b) == 4, id+".len")
	vrt.Assert(b[0] == 0xb8 && b[1] == 1 && b[2] == 0 && b[3] == 2, id+".bytes")
	vrt.Reach(id + ".end")
}

// VC19Chunk: as VC19Charset with the two comment bytes placed so that the
// decoded text straddles the 4096-byte buffer of the decoding writer.
func VC19Chunk() {
	pad := 4089 + vrt.Choose("pad", 8) // bytes of text before the two bytes
	cb := c19Bytes(2, "b")
	head := "MOV AX,1 ;"
	text := []byte(head + strings.Repeat("a", pad-len(head)))
	text = append(text, cb...)
	text = append(text, "\nDB 2\n"...)
	c19CheckComment(text, "c19.chunk")
}

// VC19Equiv: programs whose numbers are solver variables, written as text to
// the source file, give through the command line exactly the file the
// in-process API gives for the same text; the output file existed before
// with longer contents.
func VC19Equiv() {
	progs := []string{
		"MOV AX,%d\nDB %d\n",
		"[FORMAT \"WCOFF\"]\n[BITS 32]\n[FILE \"x.nas\"]\nGLOBAL _f\n[SECTION .text]\n_f:\nMOV EAX,%d\nADD EAX,%d\nRET\n",
		"ORG %d\nstart:\nJMP start\nDW start+%d\n",
		"X EQU %d\nMOV BX,X*2\nDW X+%d\nDB X\n",
	}
	pi := vrt.Choose("prog", len(progs))
	// digit-count classes as explicit cells (their union is 0..65535 / 0..255)
	alo := []int64{0, 10, 100, 1000, 10000}
	ahi := []int64{9, 99, 999, 9999, 65535}
	da := vrt.Choose("adigits", 5)
	db := vrt.Choose("bdigits", 3)
	a := vrt.IntRange("a", alo[da], ahi[da])
	b := vrt.IntRange("b", alo[db], []int64{9, 99, 255}[db])
	text := fmt.Sprintf(progs[pi], a, b)
	src := vrt.TempFile("e.nas")
	out := vrt.TempFile("e.bin")
	if err := os.WriteFile(src, []byte(text), 0o644); err != nil {
		panic(err)
	}
	os.WriteFile(out, []byte(strings.Repeat("stale", 400)), 0o644)
	ref, oc := Assemble(text, "ref")
	vrt.Assume(oc == "ok")
	vrt.ResetDiag()
	code, _ := vrt.RunCLI([]string{src, out})
	vrt.Note("code", strconv.Itoa(code))
	vrt.Assert(code == 0, "c19.equiv.exit0")
	got, err := os.ReadFile(out)
	vrt.Assert(err == nil, "c19.equiv.outfile")
	vrt.NoteBytes("out", got)
	vrt.Assert(len(got) == len(ref), "c19.equiv.len")
	var d diffAcc
	for i := range ref {
		d.eq(uint64(got[i]), uint64(ref[i]))
	}
	vrt.Assert(d.d == 0, "c19.equiv.bytes")
	vrt.Reach("c19.equiv.end")
}
