//go:build verif

// Package vrt is the nondet/assume/assert API of the verification harnesses.
// Under the symbolic engine every function here is intercepted by name; the
// bodies below are the native implementation used for replaying a solver
// model against the real, natively compiled code.
package vrt

import (
	"bytes"
	"encoding/hex"
	"encoding/json"
	"fmt"
	"log"
	"os"
	"os/exec"
	"path/filepath"
	"strconv"
	"strings"
)

type modelFile struct {
	Harness string           `json:"harness"`
	Model   map[string]int64 `json:"model"`
	Chooses map[string]int   `json:"chooses"`
	Params  map[string]int   `json:"params"`
}

var (
	model    modelFile
	logBuf   bytes.Buffer
	tmpDir   string
	Registry = map[string]func(){}
)

func init() {
	if p := os.Getenv("VERIF_MODEL"); p != "" {
		b, err := os.ReadFile(p)
		if err != nil {
			fmt.Println("VERIF-ERROR cannot read model:", err)
			os.Exit(99)
		}
		if err := json.Unmarshal(b, &model); err != nil {
			fmt.Println("VERIF-ERROR bad model:", err)
			os.Exit(99)
		}
	}
	log.SetFlags(0)
	log.SetOutput(&logBuf)
}

func Register(name string, f func()) { Registry[name] = f }

func val(name string) int64 {
	v, ok := model.Model[name]
	if !ok {
		return 0
	}
	return v
}

func Int64(name string) int64   { return val(name) }
func Int32(name string) int32   { return int32(val(name)) }
func Int16(name string) int16   { return int16(val(name)) }
func Int8(name string) int8     { return int8(val(name)) }
func Int(name string) int       { return int(val(name)) }
func Uint64(name string) uint64 { return uint64(val(name)) }
func Uint32(name string) uint32 { return uint32(val(name)) }
func Uint16(name string) uint16 { return uint16(val(name)) }
func Uint8(name string) uint8   { return uint8(val(name)) }
func Bool(name string) bool     { return val(name) != 0 }

func IntRange(name string, lo, hi int64) int64 {
	v := val(name)
	if v < lo || v > hi {
		fmt.Printf("VERIF-ASSUME-FALSE range %s\n", name)
		os.Exit(90)
	}
	return v
}

func Byte(name string, lo, hi byte) byte {
	v := byte(val(name))
	if v < lo || v > hi {
		fmt.Printf("VERIF-ASSUME-FALSE range %s\n", name)
		os.Exit(90)
	}
	return v
}

// Param returns a tier parameter of the harness (0 if unset).
func Param(name string) int { return model.Params[name] }

func Choose(name string, n int) int {
	c, ok := model.Chooses[name]
	if !ok || c >= n {
		return 0
	}
	return c
}

func ChooseStr(name string, opts []string) string { return opts[Choose(name, len(opts))] }

func Assume(c bool) {
	if !c {
		fmt.Println("VERIF-ASSUME-FALSE")
		os.Exit(90)
	}
}

func Assert(c bool, id string) {
	if !c {
		fmt.Printf("VERIF-ASSERT-FAIL %s\n", id)
		os.Exit(91)
	}
}

// Once runs f (a concrete, deterministic computation); the engine runs it
// once per cell and reuses the result.
// Isolated returns what f yields when run in a fresh process: under the
// engine the heap is rolled back after the call; natively the test binary
// re-executes itself and runs f there (the k-th call of a harness is served by
// a child that skips the k-1 calls before it).  Everything the harness does
// before the call must be stateless.
func Isolated(f func() []byte) []byte {
	isoCalls++
	if e := os.Getenv("VERIF_ISO"); e != "" {
		k, _ := strconv.Atoi(e)
		if isoCalls < k {
			// an earlier isolated computation: its result is not needed in
			// this child and it must not touch this process's state
			return nil
		}
		if isoCalls == k {
			b := f()
			fmt.Printf("VERIF-ISO %x\n", b)
			Cleanup()
			os.Exit(0)
		}
	}
	cmd := exec.Command(os.Args[0], "-test.run", "^TestVerifReplay$")
	cmd.Env = append(os.Environ(), "VERIF_ISO="+strconv.Itoa(isoCalls))
	out, _ := cmd.CombinedOutput()
	for _, line := range strings.Split(string(out), "\n") {
		if strings.HasPrefix(line, "VERIF-ISO ") {
			b, _ := hex.DecodeString(strings.TrimSpace(strings.TrimPrefix(line, "VERIF-ISO ")))
			return b
		}
	}
	fmt.Printf("VERIF-ERROR isolated run produced no result: %s\n", out)
	os.Exit(99)
	return nil
}

var isoCalls int

var onceCache = map[string]any{}

func Once(key string, f func() any) any {
	if v, ok := onceCache[key]; ok {
		return v
	}
	v := f()
	onceCache[key] = v
	return v
}

// Or and And combine conditions without short-circuit evaluation (no path
// fork under the engine).
func Or(c ...bool) bool {
	r := false
	for _, x := range c {
		r = r || x
	}
	return r
}

func And(c ...bool) bool {
	r := true
	for _, x := range c {
		r = r && x
	}
	return r
}

func Ite(c bool, a, b int64) int64 {
	if c {
		return a
	}
	return b
}

func Abs64(v int64) int64 {
	if v < 0 {
		return -v
	}
	return v
}

func Reach(id string)        {}
func Note(key, value string) { fmt.Printf("VERIF-NOTE %s=%q\n", key, value) }
func Symbolic() bool         { return false }

// NoteBytes records a byte string (hex) for translator validation.
func NoteBytes(key string, b []byte) {
	var sb strings.Builder
	for _, c := range b {
		fmt.Fprintf(&sb, "%02x ", c)
	}
	fmt.Printf("VERIF-NOTE %s=%q\n", key, sb.String())
}

// Diag returns the diagnostics emitted so far (log lines; stdout lines of
// the assembler are not captured natively).
func Diag() []string {
	var out []string
	for _, l := range strings.Split(logBuf.String(), "\n") {
		if l != "" {
			out = append(out, l)
		}
	}
	return out
}

func ResetDiag() { logBuf.Reset() }

func TempFile(name string) string {
	if tmpDir == "" {
		d, err := os.MkdirTemp("", "verif-replay-")
		if err != nil {
			panic(err)
		}
		tmpDir = d
	}
	return filepath.Join(tmpDir, strings.ReplaceAll(name, "/", "_"))
}

// TempDir is the directory TempFile names live in.
func TempDir() string { return filepath.Dir(TempFile("x")) }

// MkDir creates a directory (a path from TempFile).
func MkDir(name string) {
	if err := os.Mkdir(name, 0o755); err != nil {
		fmt.Println("VERIF-ERROR mkdir:", err)
		os.Exit(99)
	}
}

// RunCLI runs the gosk command with the argument vector and returns its
// exit status and what it printed (stdout and stderr together).  Under the
// engine main() is executed symbolically in place; natively the real binary
// (built by the check from /repo, named by VERIF_GOSK) is executed.
func RunCLI(args []string) (int, string) {
	bin := os.Getenv("VERIF_GOSK")
	if bin == "" {
		fmt.Println("VERIF-ERROR VERIF_GOSK not set")
		os.Exit(99)
	}
	cmd := exec.Command(bin, args...)
	cmd.Dir = TempDir()
	out, err := cmd.CombinedOutput()
	code := 0
	if ee, ok := err.(*exec.ExitError); ok {
		code = ee.ExitCode()
	} else if err != nil {
		fmt.Println("VERIF-ERROR cannot run gosk:", err)
		os.Exit(99)
	}
	return code, string(out)
}

func Cleanup() {
	if tmpDir != "" {
		os.RemoveAll(tmpDir)
	}
}

func FailPath(name string) {}

func SetArgs(a []string) { os.Args = a }

// Try runs f and reports how it ended: "ok" or "panic: ...".  (os.Exit
// cannot be intercepted natively; the replay driver reads the exit status.)
func Try(f func()) (out string) {
	defer func() {
		if p := recover(); p != nil {
			out = fmt.Sprintf("panic: %v", p)
		}
	}()
	f()
	return "ok"
}
