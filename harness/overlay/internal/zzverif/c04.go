//go:build verif

package zzverif

import (
	"strconv"

	"github.com/HobbyOSs/gosk/internal/zzverif/vrt"
	"github.com/HobbyOSs/gosk/internal/zzverif/x86ref"
)

func init() {
	vrt.Register("zzverif.VC04Num", VC04Num)
	vrt.Register("zzverif.VC04Label", VC04Label)
	vrt.Register("zzverif.VC04Far", VC04Far)
}

var jumpMnemonics = []string{"JMP", "CALL", "JA", "JAE", "JB", "JBE", "JC", "JE", "JG", "JGE", "JL", "JLE", "JNA", "JNAE",
	"JNB", "JNBE", "JNC", "JNE", "JNG", "JNGE", "JNL", "JNLE", "JNO", "JNP", "JNS", "JNZ", "JO", "JP", "JPE", "JPO", "JS", "JZ"}

// checkBranch decodes the branch at out[at:] (located at address org+at) and
// requires: the named operation/condition, a target equal to `target` at
// the operand size the encoding has in that mode.
func checkBranch(out []byte, at int, mode int, org int64, mn string, target int64, id string) {
	inst, ok := x86ref.Decode(out[at:], mode, uint32(org)+uint32(at))
	var acc diffAcc
	acc.flag(!ok)
	switch mn {
	case "JMP", "CALL":
		acc.flag(inst.Op != mn)
	default:
		acc.flag(inst.Op != "Jcc")
		acc.flag(inst.Cond != x86ref.CondOf(mn))
	}
	acc.flag(inst.NOps != 1 || inst.Ops[0].Kind != x86ref.KRel)
	want := uint64(target)
	if inst.OpSize == 16 {
		want &= 0xffff
	} else {
		want &= 0xffffffff
	}
	acc.eq(uint64(inst.Ops[0].Target), want)
	vrt.Note("len", strconv.Itoa(inst.Len))
	vrt.Assert(acc.d == 0, id)
}

// VC04Num: <branch> <numeric target> at a symbolic origin: every distance.
func VC04Num() {
	mode := []int{16, 32}[vrt.Choose("mode", 2)]
	mn := vrt.ChooseStr("mn", jumpMnemonics)
	limit := int64(0xffff)
	if mode == 32 {
		limit = 0xffffffff
	}
	org := vrt.IntRange("org", 0, limit)
	t := vrt.IntRange("target", 0, limit)
	if vrt.Param("alldigits") == 0 {
		// origin and target digit classes: 1, 3, 5 (and 10 in 32-bit mode)
		for _, m := range []int64{org, t} {
			vrt.Assume(vrt.Or(m < 10, vrt.And(m >= 100, m < 1000), vrt.And(m >= 10000, m < 100000), m >= 1000000000))
		}
	}
	var sb subs
	src := bitsHeader(mode) + "ORG " + lit(org, &sb) + "\n" + mn + " " + lit(t, &sb) + "\n"
	vrt.Note("src", src)
	out, oc := AssembleT(src, sb.list, "s")
	vrt.Note("outcome", oc)
	vrt.NoteBytes("bytes", out)
	if oc != "ok" || diagnosed() || len(out) == 0 {
		// a numeric target inside the mode's address space is a valid
		// statement: refusing it (the branch then simply is not there) is not
		// "transferring control to exactly that address"
		vrt.Assert(false, "c04.assembles")
		vrt.Reach("c04.rejected")
		return
	}
	vrt.Reach("c04.accepted")
	checkBranch(out, 0, mode, org, mn, t, "c04.target")
}

var c04Gaps = []int{0, 1, 2, 3, 120, 121, 122, 123, 124, 125, 126, 127, 128, 129, 130, 131, 132, 133, 134, 135}

// VC04Label: branches to labels, forward and backward, with gaps on both
// sides of the rel8 boundary, at a symbolic origin.
func VC04Label() {
	mode := []int{16, 32}[vrt.Choose("mode", 2)]
	mns := []string{"JMP", "CALL", "JE", "JNGE"}
	if vrt.Param("allregs") != 0 {
		mns = jumpMnemonics
	}
	mn := vrt.ChooseStr("mn", mns)
	forward := vrt.Choose("forward", 2) == 1
	gap := c04Gaps[vrt.Choose("gap", len(c04Gaps))]
	more := vrt.Choose("labelafter", 2) == 1
	// 32-bit backward layout: optionally a far CALL (rel32, 5 bytes) stands
	// before the target label, so the label's address depends on how pass 1
	// sizes that CALL
	precall := mode == 32 && !forward && vrt.Choose("precall", 2) == 1
	org := vrt.IntRange("org", 0, 0xf000)
	var sb subs
	src := bitsHeader(mode) + "ORG " + lit(org, &sb) + "\n"
	at := 0
	pre := 0
	if forward {
		src += mn + " target\nRESB " + strconv.Itoa(gap) + "\ntarget:\nDB 0x90\n"
	} else {
		if precall {
			src += "CALL 0x200000\n"
			pre = 5
		}
		src += "target:\nRESB " + strconv.Itoa(gap) + "\n" + mn + " target\n"
		at = pre + gap
	}
	if more {
		src += "after:\nDB 0x91\n"
	}
	vrt.Note("src", src)
	out, oc := AssembleT(src, sb.list, "s")
	vrt.Note("outcome", oc)
	vrt.NoteBytes("bytes", out)
	if oc != "ok" || diagnosed() || len(out) <= at {
		vrt.Reach("c04l.rejected")
		return
	}
	vrt.Reach("c04l.accepted")
	var target int64
	if forward {
		// the labelled statement is the DB 0x90 marker
		pos := len(out) - 1
		if more {
			pos--
		}
		target = org + int64(pos)
	} else {
		target = org + int64(pre)
	}
	checkBranch(out, at, mode, org, mn, target, "c04.label")
}

// VC04Far: JMP DWORD sel:off.
func VC04Far() {
	mode := []int{16, 32}[vrt.Choose("mode", 2)]
	sel := vrt.IntRange("sel", 0, 0xffff)
	off := vrt.IntRange("off", 0, 0xffffffff)
	var sb subs
	src := bitsHeader(mode) + "JMP DWORD " + lit(sel, &sb) + ":" + lit(off, &sb) + "\n"
	vrt.Note("src", src)
	out, oc := AssembleT(src, sb.list, "s")
	vrt.Note("outcome", oc)
	vrt.NoteBytes("bytes", out)
	if oc != "ok" || diagnosed() || len(out) == 0 {
		vrt.Reach("c04f.rejected")
		return
	}
	vrt.Reach("c04f.accepted")
	inst, ok := x86ref.Decode(out, mode, 0)
	var acc diffAcc
	acc.flag(!ok || inst.Op != "JMPF" || inst.Len != len(out) || inst.OpSize != 32)
	acc.eq(uint64(inst.Ops[0].Sel), uint64(sel))
	acc.eq(uint64(inst.Ops[0].Off), uint64(off))
	vrt.Assert(acc.d == 0, "c04.far")
}
