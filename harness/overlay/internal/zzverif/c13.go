//go:build verif

package zzverif

import (
	"strings"

	"github.com/HobbyOSs/gosk/internal/zzverif/vrt"
)

func init() {
	vrt.Register("zzverif.VC13Stmt", VC13Stmt)
	vrt.Register("zzverif.VC13Sym", VC13Sym)
	vrt.Register("zzverif.VC13Byte", VC13Byte)
}

var c13Extra = []string{
	"DB 7%0", "DB 7/0", "DB 1,7%0,2", "QX EQU 0 ; DB 512%QX", "QX EQU 0 ; DW 512/QX", "IN AL", "IN", "OUT", "OUT AL", "IN AL,DX,3",
	"INT 0x80", "INT 255", "INT 256", "INT -1", "INT 99999999999999999999", "MOV AX,99999999999999999999", "DB 99999999999999999999999",
	"DD 18446744073709551616", "RESB 99999999999", "RESB -5", "ALIGNB 0", "ALIGNB 3", "JMP DWORD 1:2:3", "JMP 1:", "JMP :1", "MOV AX,[", "MOV AX,]", "MOV AX,[]",
	"MOV AX,[BX+]", "MOV AX,[+]", "MOV ,", "MOV AX,,BX", "[BITS 64]", "[BITS 8]", "[BITS]", "[FORMAT \"ELF\"]", "[UNKNOWN 1]", "[FILE]", "[SECTION]",
	"DB \"unterminated", "DB 'ab'", "DB ''", "DB \"\"", "DW \"ab\"", "X EQU", "EQU 5", "X EQU X", "X EQU Y ; Y EQU X ; DB X", ":", "lbl::", "1abc:", "GLOBAL", "GLOBAL 1",
	"EXTERN", "TIMES 3 DB 0", "RESW 2", "RESD 1", "END", "ALIGN 4", "DT 1", "DQ 1", "LOCK", "REP", "REP MOVSB", "MOVSB", "SHL AX,CL", "SHL AX,256", "RET 4", "RET 70000",
	"PUSH 99999999999", "MOV [99999999999],AX", "MOV AX,[BX+99999999999]", "JMP 99999999999", "CALL -1", "JE -70000", "LGDT 5", "LGDT AX", "LGDT [AX]",
	"MOV AX,0x", "MOV AX,0xZZ", "MOV AX,0x10000000000000000", "DB 1 2", "DB 1,,2", "DB ,", "MOV AX 1", "MOV AX;1", "MOV\tAX\t,\t1", "mov ax,1", "Mov Ax,1",
}

// deeply nested and long expressions (the run-time clause: work must not
// grow exponentially with nesting depth or length)
func init() {
	nest := func(d int, core string) string { return strings.Repeat("(", d) + core + strings.Repeat(")", d) }
	c13Extra = append(c13Extra,
		"DB "+nest(48, "1"), "MOV AX,"+nest(48, "2+3"), "MOV AL,[BX+"+nest(40, "5")+"]", "QX EQU "+nest(48, "7")+" ; DB QX",
		"DW "+nest(24, "1+"+nest(24, "2*3")), "DD 1"+strings.Repeat("+1", 200), "DB 2"+strings.Repeat("*1", 120),
		"DB "+strings.TrimSuffix(strings.Repeat("1,", 300), ","), "MOV AX,1"+strings.Repeat(" ; MOV AX,1", 40),
		// values whose low 32 bits are zero (a range check before or after a
		// narrowing conversion sees a different number)
		"ALIGNB 0x100000000", "ALIGNB 4294967296", "ALIGNB 0x300000000", "ALIGNB 0x10000*0x10000", "ORG 0x100000000", "INT 0x100000000", "SHL AX,0x100000000",
		"INT \"1,2\"", "INT \"\"", "QA EQU QA+QA ; MOV AX,QA", "QA EQU QB+QB ; QB EQU QA+QA ; DB QA", "JMP FAR:8", "JMP WORD:8", "JMP DWORD:8", "JMP \"WORD\":8", "JMP NEAR:8", "CALL FAR:8",
		"DB 7%0x100000000", "DW 9/0x100000000", "OUT 0x100000000,AL", "IN AL,0x100000000", "DD 0x100000000", "MOV AL,[BX+0x100000000]", "JMP 0x100000000",
	)
}

// VC13Stmt: ill-formed and unusual statements never crash the assembler.
func VC13Stmt() {
	all := append(append([]string{}, c07Invalid...), c13Extra...)
	stmt := vrt.ChooseStr("stmt", all)
	mode := []int{16, 32}[vrt.Choose("mode", 2)]
	src := bitsHeader(mode) + "MOV AX,1\n" + strings.ReplaceAll(stmt, " ; ", "\n") + "\nfin:\nHLT\n"
	vrt.Note("src", src)
	out, oc := Assemble(src, "s")
	vrt.Note("outcome", oc)
	vrt.NoteBytes("bytes", out)
	vrt.Reach("c13.ran")
	vrt.Assert(!strings.HasPrefix(oc, "panic"), "c13.nopanic")
}

// VC13Sym: operands that user-text handlers parse, with solver-variable numbers.
func VC13Sym() {
	tmpl := vrt.ChooseStr("tmpl", []string{"DB 7%L", "DB 7/L", "DW L/L", "INT L", "IN AL,L", "OUT L,AL", "SHL AX,L", "RESB 3*L/L", "MOV AX,L%L",
		"QX EQU L ; DB 9%QX", "MOV AL,[BX+L/L]", "ALIGNB L", "ORG L", "JMP L", "CALL L", "PUSH L", "DD L*3"})
	l := vrt.IntRange("L", -70000, 70000)
	var sb subs
	text := strings.ReplaceAll(tmpl, " ; ", "\n") + "\n"
	for strings.Contains(text, "L") {
		i := strings.Index(text, "L")
		if i > 0 && (text[i-1] >= 'A' && text[i-1] <= 'Z') { // part of a mnemonic (SHL, CALL, ALIGNB...)
			text = text[:i] + "\x01" + text[i+1:]
			continue
		}
		if i+1 < len(text) && (text[i+1] >= 'A' && text[i+1] <= 'Z') {
			text = text[:i] + "\x01" + text[i+1:]
			continue
		}
		text = text[:i] + lit(l, &sb) + text[i+1:]
	}
	text = strings.ReplaceAll(text, "\x01", "L")
	vrt.Note("src", text)
	out, oc := AssembleT(text, sb.list, "s")
	vrt.Note("outcome", oc)
	vrt.NoteBytes("bytes", out)
	vrt.Reach("c13s.ran")
	vrt.Assert(!strings.HasPrefix(oc, "panic"), "c13.nopanicsym")
}

var c13Corpus = []string{
	"ORG 0x7c00\nMOV AX,[BX+4]\nJMP fin\nDB \"a\",1\nfin:\nHLT\n",
	"[BITS 32]\nX EQU 3*2\n\tADD EAX,X ; c\nRESB 2\n",
}

// VC13Byte: every single-byte substitution of a small corpus: the byte is a
// solver variable over all 256 values.
func VC13Byte() {
	ci := vrt.Choose("prog", len(c13Corpus))
	text := []byte(c13Corpus[ci])
	pos := vrt.Choose("pos", len(text))
	if vrt.Param("allpos") == 0 && pos%3 != 1 {
		vrt.Assume(false) // quick tier: every third position
	}
	// printable ASCII, tab, CR or LF (three interval classes)
	cls := [][2]byte{{0x09, 0x0a}, {0x0d, 0x0d}, {0x20, 0x2f}, {0x30, 0x39}, {0x3a, 0x40}, {0x41, 0x46}, {0x58, 0x60}, {0x7b, 0x7e}}[vrt.Choose("cls", 8)]
	text[pos] = vrt.Byte("b", cls[0], cls[1])
	src := string(text)
	vrt.Note("src", src)
	out, oc := Assemble(src, "s")
	vrt.Note("outcome", oc)
	vrt.NoteBytes("bytes", out)
	vrt.Reach("c13b.ran")
	vrt.Assert(!strings.HasPrefix(oc, "panic"), "c13.nopanicbyte")
}

func init() { vrt.Register("zzverif.VDbg", VDbg) }

// VDbg: scratch harness for engine debugging.
func VDbg() {
	src := []string{"ORG 0x7c00\nMOV AX,[BX+4]\nJMP f%n\nDB \"a\",1\nfin:\nHLT\n", "JMP f*n\n", "DB \"a\"%1\n"}[vrt.Choose("i", 3)]
	out, oc := Assemble(src, "s")
	vrt.Note("outcome", oc)
	vrt.NoteBytes("bytes", out)
}
