//go:build verif

// Package zzverif is the root of the verification harnesses: importing it
// initialises every gosk package that carries in-package harnesses.
package zzverif

import (
	_ "github.com/HobbyOSs/gosk/internal/codegen"
	_ "github.com/HobbyOSs/gosk/internal/frontend"
	"github.com/HobbyOSs/gosk/internal/zzverif/vrt"
)

// Run runs the registered harness natively (replay).
func Run(name string) bool {
	f, ok := vrt.Registry[name]
	if !ok {
		return false
	}
	f()
	return true
}
