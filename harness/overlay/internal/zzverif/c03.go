//go:build verif

package zzverif

import (
	"strconv"
	"strings"

	"github.com/HobbyOSs/gosk/internal/zzverif/vrt"
)

func init() {
	vrt.Register("zzverif.VC03", VC03)
	vrt.Register("zzverif.VC03Org", VC03Org)
}

var c03Misc = []string{
	"HLT", "NOP", "CLI", "STI", "CLD", "STD", "RET", "INT 3", "INT 16", "PUSHA", "POPA", "PUSHF", "POPF", "CBW", "CWD", "IRET", "LEAVE",
	"INC AX", "DEC CX", "NEG BX", "MUL CX", "DIV BX", "INC ECX", "ADC AX,1", "SBB BX,CX",
	"IN AL,DX", "OUT DX,AL", "IN AL,0x60", "OUT 0x21,AL", "IN EAX,DX", "OUT DX,EAX",
	"DB 1,2,3", "DB \"ab\",0x0a,0", "DB 1,\"ab\"", "DB \"caf\u00e9\",0x0a", "DB 1,\"\u65e5\u672c!\"", "DW 1,0xaa55", "DD 1,0x12345678", "DW 1 ; DD 2", "RESB 18", "RESB 0",
	"DB 1 ; ALIGNB 16", "DB 1,2,3 ; ALIGNB 4", "ALIGNB 16", "X EQU 5", "X EQU 5 ; MOV AX,X", "GLOBAL foo", "EXTERN bar",
	"JMP 0x7c20", "JE 0x7c20", "CALL 0x7c80", "JMP 0x8000", "CALL 0x9000", "JMP DWORD 2*8:0x0000001b", "CALL 0x200000", "JMP 0x200000", "JE 0x200000",
	"MOV AX,lbl0", "MOV EAX,lbl0", "MOV WORD [0x1000],lbl0", "LGDT [lbl0]", "DW lbl0", "DD lbl0", "JMP lbl0", "JNZ lbl0", "CALL lbl0",
	"MOV [0x0ff0],CH", "MOV BYTE [0x0ff0],8", "MOV ECX,[EBX+16]", "MOV [ESP+4],EAX", "IMUL ECX,4608", "SHL EAX,8", "LGDT [0x0ff0]",
}

// checkLabelAfter assembles "ORG o ; lbl0: ; <body> ; lbl: ; DD lbl ; DW $"
// and requires lbl and $ to equal the real offsets.
func checkLabelAfter(mode int, org int64, body string, sb []Sub) {
	var s2 subs
	s2.list = sb
	src := bitsHeader(mode) + "ORG " + strconv.FormatInt(org, 10) + "\nlbl0:\n" + strings.ReplaceAll(body, " ; ", "\n") + "\nlbl:\nDD lbl\nDW $\n"
	vrt.Note("src", src)
	out, oc := AssembleT(src, s2.list, "s")
	vrt.Note("outcome", oc)
	vrt.NoteBytes("bytes", out)
	if oc != "ok" || diagnosed() || len(out) < 6 {
		vrt.Reach("c03.rejected")
		return
	}
	vrt.Reach("c03.accepted")
	n := len(out)
	var acc diffAcc
	acc.eqLE(out[n-6:n-2], org+int64(n-6))
	acc.eqLE(out[n-2:], org+int64(n-2))
	vrt.Assert(acc.d == 0, "c03.label")
}

// VC03: every statement kind followed by a label: the label and $ equal the
// origin plus the number of bytes really emitted before them.
func VC03() {
	mode := []int{16, 32}[vrt.Choose("mode", 2)]
	liteRegs = vrt.Param("allregs") == 0
	kind := vrt.ChooseStr("kind", []string{"c01", "shape", "misc"})
	switch kind {
	case "c01":
		form := vrt.ChooseStr("form", c01Forms)
		st := buildC01(form, mode)
		t, sb := st.Template()
		checkLabelAfter(mode, 0x7c00, t, sb)
	case "shape":
		var m MemSpec
		if vrt.Choose("addr", 2) == 0 {
			m = shape16()
		} else {
			m = shape32()
		}
		m = displacement(m)
		st := mkStmt("MOV", mode, R(regsOf(16)[2]), M(m))
		t, sb := st.Template()
		checkLabelAfter(mode, 0x7c00, t, sb)
	case "misc":
		body := vrt.ChooseStr("stmt", c03Misc)
		checkLabelAfter(mode, 0x7c00, body, nil)
	}
}

// VC03Org: the origin is symbolic: labels, $ and RESB addr-$ follow it.
func VC03Org() {
	mode := []int{16, 32}[vrt.Choose("mode", 2)]
	org := vrt.IntRange("org", 0, 60000)
	body := vrt.ChooseStr("stmt", []string{"MOV AX,1", "DB 1,2,3", "RESB 10", "JMP lbl0", "DB 1 ; ALIGNB 16", "MOV SI,lbl0"})
	var sb subs
	src := bitsHeader(mode) + "ORG " + lit(org, &sb) + "\nlbl0:\n" + strings.ReplaceAll(body, " ; ", "\n") + "\nlbl:\nDD lbl\nDW $\n"
	vrt.Note("src", src)
	out, oc := AssembleT(src, sb.list, "s")
	vrt.Note("outcome", oc)
	vrt.NoteBytes("bytes", out)
	if oc != "ok" || diagnosed() || len(out) < 6 {
		vrt.Reach("c03o.rejected")
		return
	}
	vrt.Reach("c03o.accepted")
	n := len(out)
	var acc diffAcc
	acc.eqLE(out[n-6:n-2], org+int64(n-6))
	acc.eqLE(out[n-2:], org+int64(n-2))
	vrt.Assert(acc.d == 0, "c03.orglabel")
}
