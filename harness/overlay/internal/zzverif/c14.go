//go:build verif

package zzverif

import (
	"strings"

	"github.com/HobbyOSs/gosk/internal/zzverif/vrt"
)

func init() {
	vrt.Register("zzverif.VC14", VC14)
	vrt.Register("zzverif.VC14Sym", VC14Sym)
	vrt.Register("zzverif.VC14Equ", VC14Equ)
}

// label-free, position-independent statements (one per handler family and
// operand class); valid in both modes
var c14Pool = []string{
	"MOV AX,1", "MOV AX,1000", "MOV ECX,70000", "MOV AL,[SI]", "MOV [0x0ff0],CH", "MOV BYTE [0x0ff1],8", "MOV AX,[BX+4]", "MOV SS,AX", "MOV AX,DS",
	"ADD BX,1", "ADD BX,1000", "ADD ECX,1", "ADD ECX,1000", "SUB ECX,128", "SUB ECX,1", "CMP AL,10", "CMP WORD [BX],5", "ADD WORD [BX],1",
	"AND BYTE [0x0ff1],0xfe", "OR BYTE [0x0ff1],0x01", "XOR AX,AX", "NOT BX", "SHL AX,2", "SHR EBX,16", "IMUL CX,3",
	"IN AL,0x60", "OUT 0x21,AL", "IN AL,DX", "PUSH AX", "POP BX", "PUSH ES", "INT 0x10", "HLT", "RET", "CLI",
	"DB 1,2", "DW 0xaa55", "DD 70000", "RESB 3", "DB \"ab\"", "MOV AL,BYTE [SI]", "CMP BYTE [SI],0",
	// accumulator / moffs forms and register pairs sharing an operand with
	// other pool members (table lookups that could remember their neighbour)
	"MOV AL,[0x1234]", "MOV [0x1234],AX", "MOV EAX,[0x1234]", "MOV AX,[SI]", "MOV [BX],AX", "MOV EAX,[EBX]",
	"MOV CL,AL", "CMP CL,5", "ADD BX,AX", "MOV ECX,EAX", "ADD AX,1000", "PUSH 1000", "IMUL CX,1000", "IMUL ECX,4608", "IMUL ECX,4",
	// one mnemonic, operand sizes that differ in the prefix they need (a prefix
	// decision remembered from the previous statement of the same handler)
	"OUT 0x60,EAX", "OUT 0x61,AX", "IN EAX,0x60", "IN AX,0x61",
	// statements the encoder rejects (diagnosed, nothing emitted): they must not take their neighbours with them
	"OUT 0x03d4,AL", "PUSH AL", "IN BL,DX", "ADD AX,[BX+CX]",
}

// c14Related: statements more likely to interfere through shared lookup
// state: same mnemonic or same first operand.
func c14Related(a, b string) bool {
	ma, oa, _ := strings.Cut(a, " ")
	mb, ob, _ := strings.Cut(b, " ")
	fa, _, _ := strings.Cut(oa, ",")
	fb, _, _ := strings.Cut(ob, ",")
	return ma == mb || (fa != "" && fa == fb)
}

// asmFresh assembles body in a fresh process state (vrt.Isolated): the
// result is what the statement gives on its own, whatever was assembled
// before in this run.  Encoded as [ok, diagnosed, bytes...].
func asmFresh(body string, mode int, tag string) ([]byte, string, bool) {
	r := vrt.Isolated(func() []byte {
		out, oc, d := asmPlain(body, mode, tag)
		res := []byte{0, 0}
		if oc == "ok" {
			res[0] = 1
		}
		if d {
			res[1] = 1
		}
		return append(res, out...)
	})
	if len(r) < 2 {
		return nil, "no-result", true
	}
	oc := "failed"
	if r[0] == 1 {
		oc = "ok"
	}
	return r[2:], oc, r[1] == 1
}

func asmPlain(body string, mode int, tag string) ([]byte, string, bool) {
	out, oc := AssembleT(bitsHeader(mode)+body+"\n", nil, tag)
	d := diagnosed()
	vrt.ResetDiag()
	return out, oc, d
}

// VC14: assembling A followed by B yields the output of A followed by the
// output of B.
func VC14() {
	mode := []int{16, 32}[vrt.Choose("mode", 2)]
	a := vrt.ChooseStr("a", c14Pool)
	pb := c14Pool
	if vrt.Param("allregs") == 0 {
		// quick tier: each statement against every third partner (offset by the
		// seed parameter), plus itself
		var sel []string
		for i, s := range c14Pool {
			if i%3 == vrt.Param("phase")%3 || s == a || c14Related(a, s) {
				sel = append(sel, s)
			}
		}
		pb = sel
	}
	b := vrt.ChooseStr("b", pb)
	// the references come from fresh states, so that state a statement leaves
	// behind (in the process, not only in the assembler's context) shows up
	// as a difference in the joint assembly rather than cancelling out
	oa, oca, da := asmFresh(a, mode, "a")
	ob, ocb, db := asmFresh(b, mode, "b")
	oab, ocab, dab := asmPlain(a+"\n"+b, mode, "ab")
	vrt.Note("a", a)
	vrt.Note("b", b)
	vrt.NoteBytes("out_a", oa)
	vrt.NoteBytes("out_b", ob)
	vrt.NoteBytes("out_ab", oab)
	if oca != "ok" || ocb != "ok" {
		vrt.Reach("c14.rejected")
		return
	}
	vrt.Reach("c14.accepted")
	// (a diagnosed statement contributes whatever it contributes alone —
	// usually nothing — and the joint run is diagnosed exactly when a part is)
	ok := ocab == "ok" && dab == (da || db) && len(oab) == len(oa)+len(ob)
	if ok {
		ok = string(oab[:len(oa)]) == string(oa) && string(oab[len(oa):]) == string(ob)
	}
	vrt.Assert(ok, "c14.concat")
}

// VC14Sym: two statements of the same family with independent solver-variable
// immediates.
func VC14Sym() {
	mode := []int{16, 32}[vrt.Choose("mode", 2)]
	ops := []string{"ADD", "CMP", "MOV"}
	dsts := []string{"BX", "ECX", "WORD [BX]"}
	if vrt.Param("allregs") != 0 {
		ops = []string{"ADD", "SUB", "CMP", "AND", "OR", "XOR", "MOV"}
		dsts = []string{"BX", "ECX", "WORD [BX]", "BYTE [0x0ff1]", "AX"}
	}
	op := vrt.ChooseStr("op", ops)
	dst := vrt.ChooseStr("dst", dsts)
	op2 := op
	if vrt.Param("allregs") != 0 && vrt.Choose("sameop", 2) == 1 {
		op2 = vrt.ChooseStr("op2", []string{"ADD", "CMP", "OR", "MOV"})
	}
	x := vrt.IntRange("x", 0, 999)
	y := vrt.IntRange("y", 0, 999)
	var sa, sb, sab subs
	ta := op + " " + dst + "," + lit(x, &sa)
	tb := op2 + " " + dst + "," + lit(y, &sb)
	tab := op + " " + dst + "," + lit(x, &sab) + "\n" + op2 + " " + dst + "," + lit(y, &sab)
	vrt.Note("a", ta)
	vrt.Note("b", tb)
	oa, oca := AssembleTK(bitsHeader(mode)+ta+"\n", sa.list, "a", "ka")
	da := diagnosed()
	vrt.ResetDiag()
	ob, ocb := AssembleTK(bitsHeader(mode)+tb+"\n", sb.list, "b", "kb")
	db := diagnosed()
	vrt.ResetDiag()
	oab, ocab := AssembleTK(bitsHeader(mode)+tab+"\n", sab.list, "ab", "kab")
	dab := diagnosed()
	vrt.NoteBytes("out_a", oa)
	vrt.NoteBytes("out_b", ob)
	vrt.NoteBytes("out_ab", oab)
	if oca != "ok" || ocb != "ok" || da || db {
		vrt.Reach("c14s.rejected")
		return
	}
	vrt.Reach("c14s.accepted")
	var acc diffAcc
	acc.flag(ocab != "ok" || dab || len(oab) != len(oa)+len(ob))
	if len(oab) == len(oa)+len(ob) {
		for i := range oa {
			acc.eq(uint64(oab[i]), uint64(oa[i]))
		}
		for i := range ob {
			acc.eq(uint64(oab[len(oa)+i]), uint64(ob[i]))
		}
	}
	vrt.Assert(acc.d == 0, "c14.concatsym")
	_ = strings.Join
}

// VC14Equ: statements that reference a common EQU name: what one statement
// does with the name (multiplying it, dividing it) must not change the bytes
// of the next one.
func VC14Equ() {
	mode := []int{16, 32}[vrt.Choose("mode", 2)]
	pool := []string{"MOV AX,FOO*2", "MOV BX,FOO", "DB FOO*5", "ADD DX,FOO", "DW FOO", "DD FOO/2", "MOV CL,FOO%2", "MOV AL,[BX+FOO]", "DW FOO+1", "CMP AX,FOO*FOO",
		// self-contained sequences that (re)define their own name
		"CNT EQU 3\nMOV CX,CNT\nDB CNT", "CNT EQU 4\nMOV CX,CNT\nDB CNT"}
	a := vrt.ChooseStr("a", pool)
	b := vrt.ChooseStr("b", pool)
	pre := "FOO EQU 3\n"
	oa, oca, da := asmFresh(pre+a, mode, "a")
	ob, ocb, db := asmFresh(pre+b, mode, "b")
	oab, ocab, dab := asmPlain(pre+a+"\n"+b, mode, "ab")
	vrt.Note("a", a)
	vrt.Note("b", b)
	vrt.NoteBytes("out_a", oa)
	vrt.NoteBytes("out_b", ob)
	vrt.NoteBytes("out_ab", oab)
	if oca != "ok" || ocb != "ok" || da || db {
		vrt.Reach("c14e.rejected")
		return
	}
	vrt.Reach("c14e.accepted")
	ok := ocab == "ok" && !dab && len(oab) == len(oa)+len(ob)
	if ok {
		ok = string(oab[:len(oa)]) == string(oa) && string(oab[len(oa):]) == string(ob)
	}
	vrt.Assert(ok, "c14.equ")
}
