//go:build verif

package zzverif

import (
	"strings"

	"github.com/HobbyOSs/gosk/internal/zzverif/vrt"
)

func init() { vrt.Register("zzverif.VC15", VC15) }

// naming families for (label A, label B, EQU E): consistent renamings of the
// same program, including adversarial ones (prefixes/suffixes of one
// another, case differences, leading underscores, digits, long names)
var c15Names = [][3]string{
	{"alpha", "beta", "gamma"},
	{"a", "aa", "aaa"}, {"aa", "a", "a_"}, {"a", "a_", "_a"}, {"a", "A", "aA"}, {"val", "VAL", "Val"}, {"cyls", "Cyls", "CYLS"},
	{"_start", "done", "k"}, {"start", "_done", "k"}, {"_", "__", "___"}, {"_1", "_2", "_3"}, {"s_tart", "done_", "k_"},
	{"x1", "x10", "x100"}, {"lbl", "lbl2", "lbl22"}, {"l", "ll", "lll"}, {"label_with_a_rather_long_name_of_40_chars", "label_with_a_rather_long_name_of_40_charz", "label_with_a_rather_long_name_of_40_cha"},
	{"fin", "fin2", "FIN"}, {"entry", "entry_", "entry0"}, {"Q", "QQ", "q"}, {"z9", "z", "z99"}, {"loop1", "loop", "loop11"},
	{"msg", "msgend", "msglen"}, {"b", "a", "c"}, {"beta", "alpha", "gamma"},
}

var c15Programs = []string{
	"E EQU 5 ; ORG 0x7c00 ; JMP A ; DB 0x90,0x90 ; A: ; MOV AL,E ; CMP AL,0 ; JE B ; CALL A ; MOV SI,B ; DW A ; JMP A ; B: ; HLT ; DB E,E+1",
	"ORG 0x7c00 ; A: ; MOV AX,A ; MOV BX,B ; E EQU 0x11 ; MOV CL,E ; JNZ A ; B: ; DW B,A ; DB E",
	"[BITS 32] ; E EQU 4 ; A: ; MOV EAX,[EBX+E*2] ; MOV ECX,A ; B: ; DD A,B ; MOV EDX,B",
}

func c15Render(prog string, n [3]string) string {
	var sb strings.Builder
	for _, st := range strings.Split(prog, " ; ") {
		// replace the standalone tokens A, B, E (single capital letters delimited by non-letters)
		out := make([]byte, 0, len(st)+16)
		for i := 0; i < len(st); i++ {
			c := st[i]
			isTok := (c == 'A' || c == 'B' || c == 'E') &&
				(i == 0 || !isNameChar(st[i-1])) && (i+1 == len(st) || !isNameChar(st[i+1]))
			if isTok {
				out = append(out, n[map[byte]int{'A': 0, 'B': 1, 'E': 2}[c]]...)
			} else {
				out = append(out, c)
			}
		}
		sb.Write(out)
		sb.WriteByte('\n')
	}
	return sb.String()
}

func isNameChar(c byte) bool {
	return c == '_' || c == '$' || c == '.' || (c >= '0' && c <= '9') || (c >= 'a' && c <= 'z') || (c >= 'A' && c <= 'Z')
}

// VC15: consistently renaming labels and EQU names leaves the flat binary
// byte-identical.
func VC15() {
	p := vrt.Choose("prog", len(c15Programs))
	k := vrt.Choose("names", len(c15Names))
	ref, ocr := AssembleT(c15Render(c15Programs[p], c15Names[0]), nil, "ref")
	dr := diagnosed()
	vrt.ResetDiag()
	src := c15Render(c15Programs[p], c15Names[k])
	vrt.Note("src", src)
	out, oc := AssembleT(src, nil, "out")
	d := diagnosed()
	vrt.NoteBytes("ref", ref)
	vrt.NoteBytes("out", out)
	if ocr != "ok" || dr {
		vrt.Reach("c15.rejected")
		return
	}
	vrt.Reach("c15.accepted")
	vrt.Assert(oc == "ok" && !d && string(out) == string(ref), "c15.same")
}
