//go:build verif

package zzverif

import (
	"strings"

	"github.com/HobbyOSs/gosk/internal/zzverif/vrt"
)

func init() { vrt.Register("zzverif.VC15", VC15) }

// naming families for (label A, label B, EQU E): consistent renamings of the
// same program, including adversarial ones (prefixes/suffixes of one
// another, case differences, leading underscores, digits, long names)
var c15Names = [][3]string{
	{"alpha", "beta", "gamma"},
	{"a", "aa", "aaa"}, {"aa", "a", "a_"}, {"a", "a_", "_a"}, {"a", "A", "aA"}, {"val", "VAL", "Val"}, {"cyls", "Cyls", "CYLS"},
	{"_start", "done", "k"}, {"start", "_done", "k"}, {"_", "__", "___"}, {"_1", "_2", "_3"}, {"s_tart", "done_", "k_"},
	{"x1", "x10", "x100"}, {"lbl", "lbl2", "lbl22"}, {"l", "ll", "lll"}, {"label_with_a_rather_long_name_of_40_chars", "label_with_a_rather_long_name_of_40_charz", "label_with_a_rather_long_name_of_40_cha"},
	{"fin", "fin2", "FIN"}, {"entry", "entry_", "entry0"}, {"Q", "QQ", "q"}, {"z9", "z", "z99"}, {"loop1", "loop", "loop11"},
	{"msg", "msgend", "msglen"}, {"b", "a", "c"}, {"beta", "alpha", "gamma"},
	// the EQU name inside a label name; long names that are inner parts of one another
	{"start", "stack_top", "top"}, {"b", "aa", "a"}, {"_inthandler21", "_inthandler2", "k"}, {"_asm_inthandler21", "asm_inthand", "hand"},
}

var c15Programs = []string{
	"E EQU 5 ; ORG 0x7c00 ; JMP A ; DB 0x90,0x90 ; A: ; MOV AL,E ; CMP AL,0 ; JE B ; CALL A ; MOV SI,B ; DW A ; JMP A ; B: ; HLT ; DB E,E+1",
	"ORG 0x7c00 ; A: ; MOV AX,A ; MOV BX,B ; E EQU 0x11 ; MOV CL,E ; JNZ A ; B: ; DW B,A ; DB E",
	"[BITS 32] ; E EQU 4 ; A: ; MOV EAX,[EBX+E*2] ; MOV ECX,A ; B: ; DD A,B ; MOV EDX,B",
	// the EQU is an alias of a label defined later (its value stays symbolic through pass 1)
	"ORG 0x7c00 ; E EQU B ; MOV SP,E ; JMP A ; A: ; HLT ; JMP A ; B: ; DB 0x55",
}

func c15Render(prog string, n [3]string) string {
	var sb strings.Builder
	for _, st := range strings.Split(prog, " ; ") {
		// replace the standalone tokens A, B, E (single capital letters delimited by non-letters)
		out := make([]byte, 0, len(st)+16)
		for i := 0; i < len(st); i++ {
			c := st[i]
			isTok := (c == 'A' || c == 'B' || c == 'E') &&
				(i == 0 || !isNameChar(st[i-1])) && (i+1 == len(st) || !isNameChar(st[i+1]))
			if isTok {
				out = append(out, n[map[byte]int{'A': 0, 'B': 1, 'E': 2}[c]]...)
			} else {
				out = append(out, c)
			}
		}
		sb.Write(out)
		sb.WriteByte('\n')
	}
	return sb.String()
}

func isNameChar(c byte) bool {
	return c == '_' || c == '$' || c == '.' || (c >= '0' && c <= '9') || (c >= 'a' && c <= 'z') || (c >= 'A' && c <= 'Z')
}

// VC15: consistently renaming labels and EQU names leaves the flat binary
// byte-identical.
func VC15() {
	p := vrt.Choose("prog", len(c15Programs))
	k := vrt.Choose("names", len(c15Names))
	ref, ocr := AssembleT(c15Render(c15Programs[p], c15Names[0]), nil, "ref")
	dr := diagnosed()
	vrt.ResetDiag()
	src := c15Render(c15Programs[p], c15Names[k])
	vrt.Note("src", src)
	out, oc := AssembleT(src, nil, "out")
	d := diagnosed()
	vrt.NoteBytes("ref", ref)
	vrt.NoteBytes("out", out)
	if ocr != "ok" || dr {
		vrt.Reach("c15.rejected")
		return
	}
	vrt.Reach("c15.accepted")
	vrt.Assert(oc == "ok" && !d && string(out) == string(ref), "c15.same")
}

func init() { vrt.Register("zzverif.VC15Coff", VC15Coff) }

// VC15Coff: in COFF output a consistent renaming changes only symbol-name
// fields and the string table: everything before the symbol table is
// byte-identical, and the symbol records agree in number, order, value,
// section, class and auxiliary data, their names being the renamed ones.
func VC15Coff() {
	k := vrt.Choose("names", len(c15Names))
	layout := vrt.Choose("layout", 3)
	prog := func(n [3]string) string {
		a, b, e := n[0], n[1], n[2]
		globals := "\tGLOBAL " + a + ", " + b + "\n"
		if layout == 1 {
			globals = "\tGLOBAL " + b + "\n\tGLOBAL " + a + "\n"
		}
		body := e + " EQU 4\n" + a + ":\n\tMOV EAX,[ESP+" + e + "]\n\tRET\n" + b + ":\n\tMOV ECX," + e + "*2\n\tCALL " + a + "\n\tRET\n"
		head := "[FORMAT \"WCOFF\"]\n[BITS 32]\n[FILE \"ren.nas\"]\n"
		if layout == 2 {
			return head + "[SECTION .text]\n" + body + globals
		}
		return head + globals + "[SECTION .text]\n" + body
	}
	ref, ocr := AssembleT(prog(c15Names[0]), nil, "ref")
	dr := diagnosed()
	vrt.ResetDiag()
	src := prog(c15Names[k])
	vrt.Note("src", src)
	out, oc := AssembleT(src, nil, "out")
	d := diagnosed()
	vrt.NoteBytes("ref", ref)
	vrt.NoteBytes("out", out)
	if ocr != "ok" || dr {
		vrt.Reach("c15.coff.rejected")
		return
	}
	vrt.Reach("c15.coff.accepted")
	vrt.Assert(oc == "ok" && !d, "c15.coff.accepted")
	ro, p1 := readCoff(ref)
	oo, p2 := readCoff(out)
	vrt.Note("problems", p1+"/"+p2)
	vrt.Assert(p1 == "" && p2 == "", "c15.coff.valid")
	// headers, section table, raw data, relocations: identical
	symtab := le32(ref[8:])
	vrt.Assert(le32(out[8:]) == symtab && len(out) >= symtab && string(out[:symtab]) == string(ref[:symtab]), "c15.coff.body")
	// symbol records: same shape, names renamed
	ren := map[string]string{}
	for i := 0; i < 3; i++ {
		ren[c15Names[0][i]] = c15Names[k][i]
	}
	same := len(ro.Syms) == len(oo.Syms) && ro.NRecords == oo.NRecords
	if same {
		for i, s := range ro.Syms {
			t := oo.Syms[i]
			want := s.Name
			if r, ok := ren[s.Name]; ok {
				want = r
			}
			if t.Name != want || t.Value != s.Value || t.Section != s.Section || t.Class != s.Class || t.NAux != s.NAux || string(t.Aux) != string(s.Aux) {
				same = false
			}
		}
	}
	vrt.Assert(same, "c15.coff.symbols")
}

func init() { vrt.Register("zzverif.VC15Sym", VC15Sym) }

// VC15Sym: as VC15, with one or two characters of the new names solver
// variables over [A-Za-z0-9_] (4 classes per position): the renamed text
// goes through the real parser, symbol table and template substitution with
// those bytes symbolic.
func VC15Sym() {
	p := vrt.Choose("prog", len(c15Programs))
	which := vrt.Choose("which", 3) // which of the three names carries the symbolic characters
	classes := [][2]byte{{'a', 'z'}, {'A', 'Z'}, {'0', '9'}, {'_', '_'}}
	c1 := classes[vrt.Choose("class1", 4)]
	x := vrt.Byte("x", c1[0], c1[1])
	tail := ""
	if vrt.Param("two") != 0 {
		// a second, appended character from one representative per class
		// (the full square of both positions would be 63x63 enumerated paths
		// per cell)
		tail = []string{"", "b", "B", "7", "_"}[vrt.Choose("tail", 5)]
	}
	names := [3]string{"wq", "wqq", "w_q"}
	names[which] = "w" + string([]byte{x}) + "k" + tail
	// injective: the symbolic name has 3..4 characters w?k[?]; "wqq" is the
	// only fixed name of that shape
	vrt.Assume(vrt.Or(which == 1, x != 'q', tail != ""))
	ref, ocr := AssembleT(c15Render(c15Programs[p], c15Names[0]), nil, "ref")
	dr := diagnosed()
	vrt.ResetDiag()
	src := c15Render(c15Programs[p], names)
	out, oc := Assemble(src, "out")
	d := diagnosed()
	vrt.NoteBytes("ref", ref)
	vrt.NoteBytes("out", out)
	if ocr != "ok" || dr {
		vrt.Reach("c15.sym.rejected")
		return
	}
	vrt.Reach("c15.sym.accepted")
	vrt.Assert(oc == "ok" && !d, "c15.sym.accepted")
	vrt.Assert(len(out) == len(ref), "c15.sym.len")
	var acc diffAcc
	for i := range ref {
		acc.eq(uint64(out[i]), uint64(ref[i]))
	}
	vrt.Assert(acc.d == 0, "c15.sym.same")
}
