//go:build verif

package zzverif

import (
	"github.com/HobbyOSs/gosk/internal/zzverif/vrt"
)

func init() { vrt.Register("zzverif.VC18", VC18) }

var c18Forms = []string{"alu_ri", "alu_mi", "mov_acc_abs", "mov_abs_acc", "mov_ri", "push_r", "pop_r", "push_i"}

func b2i(b bool) int64 {
	if b {
		return 1
	}
	return 0
}

// VC18: the emitted encoding is never longer than the shortest valid one.
// minlen is a deliberately lenient specification: the sign-extended imm8
// form is demanded only when the immediate AS WRITTEN lies in [-128,127].
func VC18() {
	mode := []int{16, 32}[vrt.Choose("mode", 2)]
	form := vrt.ChooseStr("form", c18Forms)
	var st Stmt
	var want int64
	switch form {
	case "alu_ri":
		sz := c01Sizes[vrt.Choose("size", 3)]
		reg := vrt.ChooseStr("ra", regsOf(sz))
		v := immediate("imm")
		st = mkStmt(vrt.ChooseStr("alu", alu), mode, R(reg), I(v))
		p66 := b2i(sz != 8 && sz != mode)
		isAcc := reg == regsOf(sz)[0]
		if sz == 8 {
			want = 3 - b2i(isAcc)
		} else {
			fits := vrt.And(v >= -128, v <= 127)
			long := p66 + 2 + int64(sz/8) - b2i(isAcc)
			want = vrt.Ite(fits, p66+3, long)
		}
	case "alu_mi":
		sz := c01Sizes[vrt.Choose("size", 3)]
		shapes := []MemSpec{{Base: "BX"}, {Base: "EBX"}, {Disp: 0x1234, HasDisp: true},
			{Base: "BP", Index: "SI"}, {Base: "BP", Index: "DI"}, {Base: "BX", Index: "SI"}, {Base: "SI"}, {Base: "BP"}, {Base: "EBX", Index: "ESI"}, {Base: "EBP"}}
		// ModR/M+SIB+disp bytes in 16/32-bit addressing ([BP] and [EBP] need a disp8 of 0, [BP+SI] does not)
		mlens := [][2]int64{{1, 1}, {1, 1}, {3, 5}, {1, 1}, {1, 1}, {1, 1}, {1, 1}, {2, 2}, {2, 2}, {2, 2}}
		k := vrt.Choose("shape", len(shapes))
		m := shapes[k]
		m.SizeKw = kwOf(sz)
		v := immediate("imm")
		st = mkStmt(vrt.ChooseStr("alu", alu), mode, M(m), I(v))
		asz := m.addrSizeOf()
		if asz == 0 {
			asz = mode
		}
		p66 := b2i(sz != 8 && sz != mode)
		p67 := b2i(asz != mode)
		ml := mlens[k][0]
		if asz == 32 {
			ml = mlens[k][1]
		}
		if sz == 8 {
			want = p67 + 1 + ml + 1
		} else {
			fits := vrt.And(v >= -128, v <= 127)
			want = vrt.Ite(fits, p66+p67+1+ml+1, p66+p67+1+ml+int64(sz/8))
		}
	case "mov_acc_abs", "mov_abs_acc":
		sz := c01Sizes[vrt.Choose("size", 3)]
		a := vrt.IntRange("abs", 0, 65535)
		if form == "mov_acc_abs" {
			st = mkStmt("MOV", mode, R(regsOf(sz)[0]), M(MemSpec{Disp: a, HasDisp: true}))
		} else {
			st = mkStmt("MOV", mode, M(MemSpec{Disp: a, HasDisp: true}), R(regsOf(sz)[0]))
		}
		want = b2i(sz != 8 && sz != mode) + 1 + int64(mode/8)
	case "mov_ri":
		sz := c01Sizes[vrt.Choose("size", 3)]
		st = mkStmt("MOV", mode, R(vrt.ChooseStr("ra", regsOf(sz))), I(immediate("imm")))
		want = b2i(sz != 8 && sz != mode) + 1 + int64(sz/8)
	case "push_r", "pop_r":
		sz := []int{16, 32}[vrt.Choose("size", 2)]
		mn := "PUSH"
		if form == "pop_r" {
			mn = "POP"
		}
		st = mkStmt(mn, mode, R(vrt.ChooseStr("ra", regsOf(sz))))
		want = b2i(sz != mode) + 1
	case "push_i":
		v := immediate("imm")
		st = mkStmt("PUSH", mode, I(v))
		fits := vrt.And(v >= -128, v <= 127)
		want = vrt.Ite(fits, 2, 1+int64(mode/8))
	}
	t, sb := st.Template()
	src := bitsHeader(mode) + t + "\n"
	vrt.Note("src", src)
	out, oc := AssembleT(src, sb, "s")
	vrt.Note("outcome", oc)
	vrt.NoteBytes("bytes", out)
	if oc != "ok" || diagnosed() {
		vrt.Reach("c18.rejected")
		return
	}
	vrt.Reach("c18.accepted")
	vrt.Assert(int64(len(out)) <= want, "c18.minlen")
}
