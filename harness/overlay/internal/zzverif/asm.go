//go:build verif

package zzverif

import (
	"os"
	"strconv"

	"github.com/HobbyOSs/gosk/internal/ast"
	"github.com/HobbyOSs/gosk/internal/frontend"
	"github.com/HobbyOSs/gosk/internal/gen"
	"github.com/HobbyOSs/gosk/internal/zzverif/vrt"
)

// Assemble runs the in-process API (gen.Parse + frontend.Exec) on src and
// returns the bytes of the output file and how the run ended: "ok",
// "parse-error", "panic: …" or "exit:N".
func Assemble(src string, tag string) (out []byte, outcome string) {
	dst := vrt.TempFile(tag + ".out")
	var tree any
	var perr error
	outcome = vrt.Try(func() {
		tree, perr = gen.Parse("", []byte(src), gen.Entrypoint("Program"))
	})
	if outcome != "ok" {
		return nil, outcome
	}
	if perr != nil {
		LastParseError = perr.Error()
		return nil, "parse-error"
	}
	outcome = vrt.Try(func() {
		frontend.Exec(tree, dst)
	})
	if outcome != "ok" {
		return nil, outcome
	}
	b, err := os.ReadFile(dst)
	if err != nil {
		return nil, "no-output"
	}
	return b, "ok"
}

var LastParseError string

// LastTree is the tree most recently assembled by AssembleT/AssembleTK.
var LastTree any

// ExecTree assembles an already parsed (and substituted) tree again.
func ExecTree(tree any, tag string) (out []byte, outcome string) {
	dst := vrt.TempFile(tag + ".out")
	outcome = vrt.Try(func() {
		frontend.Exec(tree, dst)
	})
	if outcome != "ok" {
		return nil, outcome
	}
	b, err := os.ReadFile(dst)
	if err != nil {
		return nil, "no-output"
	}
	return b, "ok"
}

// AssembleT assembles a program given as template text plus substitutions:
// the template (all literals concrete) is parsed by the real parser — once
// per cell under the engine — and the placeholder NumberFactors of the tree
// are then replaced by the (possibly symbolic) values.
func AssembleT(tmpl string, sb []Sub, tag string) (out []byte, outcome string) {
	return AssembleTK(tmpl, sb, tag, "")
}

// AssembleTK is AssembleT with an explicit parse key: calls with the same
// (template, key) share one parsed tree (re-assembling the same tree), calls
// with different keys parse afresh.
func AssembleTK(tmpl string, sb []Sub, tag, key string) (out []byte, outcome string) {
	dst := vrt.TempFile(tag + ".out")
	type parsed struct {
		tree any
		err  error
		oc   string
	}
	p := vrt.Once("parse:"+key+":"+tmpl, func() any {
		var r parsed
		r.oc = vrt.Try(func() {
			r.tree, r.err = gen.Parse("", []byte(tmpl), gen.Entrypoint("Program"))
		})
		return &r
	}).(*parsed)
	if p.oc != "ok" {
		return nil, p.oc
	}
	if p.err != nil {
		LastParseError = p.err.Error()
		return nil, "parse-error"
	}
	prog, ok := p.tree.(*ast.Program)
	if !ok {
		return nil, "parse-error"
	}
	left := substProgram(prog, sb)
	if left != 0 {
		return nil, "template-error"
	}
	LastTree = p.tree
	outcome = vrt.Try(func() {
		frontend.Exec(p.tree, dst)
	})
	if outcome != "ok" {
		return nil, outcome
	}
	b, err := os.ReadFile(dst)
	if err != nil {
		return nil, "no-output"
	}
	return b, "ok"
}

// substProgram replaces placeholder literals; returns how many of sb were
// NOT found exactly once.
func substProgram(p *ast.Program, sb []Sub) int {
	found := make([]int, len(sb))
	var factor func(f ast.Factor)
	factor = func(f ast.Factor) {
		if n, ok := f.(*ast.NumberFactor); ok {
			for i := range sb {
				if n.Value == sb[i].Placeholder {
					n.Value = int(sb[i].Val)
					found[i]++
					return
				}
			}
		}
	}
	var exp func(e ast.Exp)
	add := func(a *ast.AddExp) {
		if a == nil {
			return
		}
		exp(a)
	}
	exp = func(e ast.Exp) {
		switch x := e.(type) {
		case *ast.MemoryAddrExp:
			add(x.Left)
			add(x.Right)
		case *ast.SegmentExp:
			add(x.Left)
			add(x.Right)
		case *ast.AddExp:
			if x.HeadExp != nil {
				exp(x.HeadExp)
			}
			for _, t := range x.TailExps {
				exp(t)
			}
		case *ast.MultExp:
			if x.HeadExp != nil {
				exp(x.HeadExp)
			}
			for _, t := range x.TailExps {
				exp(t)
			}
		case *ast.ImmExp:
			factor(x.Factor)
		}
	}
	for _, st := range p.Statements {
		switch x := st.(type) {
		case *ast.MnemonicStmt:
			for _, o := range x.Operands {
				exp(o)
			}
		case *ast.DeclareStmt:
			exp(x.Value)
		}
	}
	bad := 0
	for _, n := range found {
		if n != 1 {
			bad++
		}
	}
	return bad
}

func hexOf(b []byte) string {
	const d = "0123456789abcdef"
	s := make([]byte, 0, len(b)*3)
	for _, c := range b {
		s = append(s, d[c>>4], d[c&15], ' ')
	}
	return string(s)
}

func init() { vrt.Register("zzverif.VConcrete", VConcrete) }

// VConcrete: engine conformance on a concrete program.
func VConcrete() {
	src := "\tORG 0x7c00\n\tMOV AX,1\nlabel:\n\tMOV SI,msg\n\tJMP label\nmsg:\n\tDB \"hi\", 0x0a\n\tRESB 4\n\tDW 0xaa55\n"
	out, oc := Assemble(src, "c1")
	vrt.Note("outcome", oc)
	vrt.Note("perr", LastParseError)
	vrt.NoteBytes("bytes", out)
	vrt.Assert(oc == "ok", "concrete.ok")
	vrt.Reach("concrete.end")
}

func init() { vrt.Register("zzverif.VSymMov", VSymMov) }

// VSymMov: decimal atoms through both PEG parsers.
func VSymMov() {
	v := vrt.Int64("v")
	src := "MOV AX," + strconv.FormatInt(v, 10) + "\n"
	out, oc := Assemble(src, "m1")
	vrt.Note("outcome", oc)
	vrt.NoteBytes("bytes", out)
	if oc == "ok" {
		vrt.Assert(len(out) == 3 && out[0] == 0xb8 && out[1] == byte(v) && out[2] == byte(v>>8), "symmov.bytes")
	}
	vrt.Reach("symmov.end")
}
