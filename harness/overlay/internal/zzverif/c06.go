//go:build verif

package zzverif

import (
	"strings"

	"github.com/HobbyOSs/gosk/internal/zzverif/vrt"
)

func init() {
	vrt.Register("zzverif.VC06", VC06)
	vrt.Register("zzverif.VC06Lit", VC06Lit)
}

// expression shapes over leaves a,b,c,d; the reference value is computed by
// refEval (a small recursive-descent evaluator with the usual precedence,
// left associativity and Go's truncating division).
var c06Shapes = []string{
	"a", "-5+a", "(a)", "a+b", "a-b", "a*b", "a/b", "a%b",
	"a+b*c", "a*b+c", "a-b-c", "a-(b-c)", "a/b/c", "a*b/c", "a-b+c", "a+b-c", "(a+b)*c", "a*(b+c)", "a-b*c", "a%b*c", "a*b%c", "(a-b)-c", "a/b*c", "a/(b*c)",
	"a+b*c-d", "a-b-c-d", "a*b+c*d", "(a+b)*(c-d)", "a-(b-(c-d))", "a+b+c+d", "a-b+c-d", "a/b+c%d", "a*(b+c)*d", "a-b*c+d", "((a))-((b+c))",
	"a+0x10", "0xFF-a", "a*0x10+b", "$+a", "a-$", "a+$-b",
	"(a*b)/c", "(a*b)%c", "(a+b)/c", "(a*b)/b",
}

type rp struct {
	s   string
	pos int
	v   map[byte]int64
	loc int64
}

func (p *rp) peek() byte {
	if p.pos < len(p.s) {
		return p.s[p.pos]
	}
	return 0
}

func (p *rp) prim() int64 {
	c := p.peek()
	switch {
	case c == '(':
		p.pos++
		v := p.sum()
		p.pos++ // ')'
		return v
	case c == '$':
		p.pos++
		return p.loc
	case c == '-':
		p.pos++
		return -p.num()
	case c >= '0' && c <= '9':
		return p.num()
	}
	p.pos++
	return p.v[c]
}

func (p *rp) num() int64 {
	if strings.HasPrefix(p.s[p.pos:], "0x") {
		p.pos += 2
		var v int64
		for {
			c := p.peek()
			var d int64
			switch {
			case c >= '0' && c <= '9':
				d = int64(c - '0')
			case c >= 'a' && c <= 'f':
				d = int64(c-'a') + 10
			case c >= 'A' && c <= 'F':
				d = int64(c-'A') + 10
			default:
				return v
			}
			v = v*16 + d
			p.pos++
		}
	}
	var v int64
	for p.peek() >= '0' && p.peek() <= '9' {
		v = v*10 + int64(p.peek()-'0')
		p.pos++
	}
	return v
}

func (p *rp) prod() int64 {
	v := p.prim()
	for {
		switch p.peek() {
		case '*':
			p.pos++
			v *= p.prim()
		case '/':
			p.pos++
			v /= p.prim()
		case '%':
			p.pos++
			v %= p.prim()
		default:
			return v
		}
	}
}

func (p *rp) sum() int64 {
	v := p.prod()
	for {
		switch p.peek() {
		case '+':
			p.pos++
			v += p.prod()
		case '-':
			p.pos++
			v -= p.prod()
		default:
			return v
		}
	}
}

// VC06: constant expressions are evaluated arithmetically, in every operand
// position that admits an expression.
func VC06() {
	shape := vrt.ChooseStr("shape", c06Shapes)
	where := vrt.ChooseStr("where", []string{"dd", "imm", "equ", "disp", "dw", "dispr", "dispbi", "equ2"})
	if where == "equ2" && len(shape) > 4 {
		vrt.Assume(false) // the reuse check does not depend on the body: short bodies only
	}
	spacing := 0
	if where == "dd" || vrt.Param("allconst") != 0 {
		spacing = vrt.Choose("spacing", 3)
	}
	vals := map[byte]int64{}
	var sb subs
	text := ""
	hasMul := strings.ContainsAny(shape, "*/%")
	symLeaf := byte('a')
	if hasMul && vrt.Choose("symleaf", 2) == 1 {
		symLeaf = 'b'
	}
	for i := 0; i < len(shape); i++ {
		c := shape[i]
		switch {
		case c >= 'a' && c <= 'd':
			var v int64
			concrete := hasMul && c != symLeaf && !(where == "dd" && vrt.Param("symmul") != 0)
			if !hasMul && c >= 'c' && vrt.Param("allconst") == 0 {
				concrete = true // at most two solver variables per expression in the quick tier
			}
			if concrete {
				// symbolic-by-symbolic multiplication/division is bounded away: in
				// shapes with * / % one leaf stays a solver variable, the others
				// are boundary constants
				if vrt.Param("allconst") != 0 {
					v = []int64{2, 3, -4, 7, 16, 255, -1}[vrt.Choose("k"+string(c), 7)]
				} else {
					v = map[byte]int64{'a': 7, 'b': 3, 'c': -4, 'd': 16}[c]
				}
			} else {
				v = vrt.IntRange("v"+string(c), -2000000000, 2000000000)
			}
			vals[c] = v
			text += lit(v, &sb)
		case c == '+' || c == '-' || c == '*' || c == '/' || c == '%':
			if i == 0 || shape[i-1] == '(' {
				text += string(c) // unary sign of a literal
				continue
			}
			switch spacing {
			case 0:
				text += string(c)
			case 1:
				text += " " + string(c) + " "
			default:
				text += " " + string(c)
			}
			// divisors must be non-zero: the leaf or parenthesis that follows
		default:
			text += string(c)
		}
	}
	// reference value; $ is the address of the statement (origin 0x100, first statement)
	ref := &rp{s: shape, v: vals, loc: 0x100}
	// assume every divisor non-zero by evaluating sub-expressions that follow / or %
	for i := 0; i < len(shape); i++ {
		if shape[i] == '/' || shape[i] == '%' {
			q := &rp{s: shape, pos: i + 1, v: vals, loc: 0x100}
			vrt.Assume(q.prim() != 0)
		}
	}
	want := ref.sum()
	var src string
	switch where {
	case "dd":
		src = "ORG 0x100\nDD " + text + "\n"
	case "dw":
		src = "ORG 0x100\nDW " + text + "\n"
	case "imm":
		src = "[BITS 32]\nORG 0x100\nMOV ECX," + text + "\n"
	case "equ":
		src = "ORG 0x100\nXX EQU " + text + "\nDD XX\n"
	case "disp":
		src = "[BITS 32]\nORG 0x100\nMOV ECX,[EBX+" + text + "]\n"
	case "dispbi":
		// base + unscaled index + expression
		src = "[BITS 32]\nORG 0x100\nMOV ECX,[EBX+ESI+" + text + "]\n"
	case "equ2":
		// the name is used in a product first and then again on its own: the
		// first use must not change what the name stands for
		src = "ORG 0x100\nXX EQU " + text + "\nDD XX*3\nDD XX\nDD XX+1\n"
	case "dispr":
		// the constant terms first, the register last
		src = "[BITS 32]\nORG 0x100\nMOV ECX,[" + text + "+EBX]\n"
	}
	vrt.Note("src", src)
	out, oc := AssembleT(src, sb.list, "s")
	vrt.Note("outcome", oc)
	vrt.NoteBytes("bytes", out)
	if oc == "ok" && !diagnosed() && len(out) == 0 && (where == "disp" || where == "dispr" || where == "dispbi" || where == "imm") {
		// accepted without a word, nothing emitted: the expression made the
		// instruction disappear
		vrt.Assert(false, "c06.dropped")
	}
	if oc != "ok" || diagnosed() || len(out) == 0 {
		// every shape here is a valid constant expression in a position that
		// admits one: failing to assemble it (even with a diagnostic) means
		// the expression was not evaluated
		// (DW warns about values beyond 16 bits: a diagnosed run is fine there)
		vrt.Reach("c06.rejected")
		vrt.Assert(where == "dw", "c06.assembles")
		return
	}
	vrt.Reach("c06.accepted")
	var acc diffAcc
	switch where {
	case "dd", "equ":
		acc.flag(len(out) != 4)
		if len(out) == 4 {
			acc.eqLE(out, want)
		}
	case "dw":
		acc.flag(len(out) != 2)
		if len(out) == 2 {
			acc.eqLE(out, want)
		}
	case "imm":
		acc.flag(len(out) != 5 || out[0] != 0xb9)
		if len(out) == 5 {
			acc.eqLE(out[1:], want)
		}
	case "equ2":
		acc.flag(len(out) != 12)
		if len(out) == 12 {
			acc.eqLE(out[0:4], want*3)
			acc.eqLE(out[4:8], want)
			acc.eqLE(out[8:12], want+1)
		}
	case "dispbi":
		// 8B 0C 33 | 8B 4C 33 d8 | 8B 8C 33 d32
		acc.flag(len(out) < 3 || out[0] != 0x8b || out[2] != 0x33)
		switch len(out) {
		case 3:
			acc.flag(out[1] != 0x0c)
			acc.eq(uint64(uint32(want)), 0)
		case 4:
			acc.flag(out[1] != 0x4c)
			acc.eq(uint64(uint32(int32(int8(out[3])))), uint64(uint32(want)))
		case 7:
			acc.flag(out[1] != 0x8c)
			acc.eqLE(out[3:], want)
		default:
			acc.flag(true)
		}
	case "disp", "dispr":
		// 8B 0B | 8B 4B d8 | 8B 8B d32
		acc.flag(len(out) < 2 || out[0] != 0x8b)
		switch len(out) {
		case 2:
			acc.flag(out[1] != 0x0b)
			acc.eq(uint64(uint32(want)), 0)
		case 3:
			acc.flag(out[1] != 0x4b)
			acc.eq(uint64(uint32(int32(int8(out[2])))), uint64(uint32(want)))
		case 6:
			acc.flag(out[1] != 0x8b)
			acc.eqLE(out[2:], want)
		default:
			acc.flag(true)
		}
	}
	vrt.Assert(acc.d == 0, "c06.value")
}

// VC06Lit: the literal-to-number step itself: decimal, negative and
// hexadecimal literal text through the real grammar.
func VC06Lit() {
	kind := vrt.ChooseStr("kind", []string{"dec", "hex", "char"})
	var src string
	var want int64
	switch kind {
	case "dec":
		v := immediate("v")
		want = v
		src = "DD " + dec(v) + "\n"
	case "hex":
		hexes := []string{"0x0", "0x7f", "0x80", "0xFF", "0xff", "0xAbCd", "0x7fffffff", "0x80000000", "0xffffffff", "0X10"}
		vals := []int64{0, 0x7f, 0x80, 0xff, 0xff, 0xabcd, 0x7fffffff, 0x80000000, 0xffffffff, 0x10}
		i := vrt.Choose("hex", len(hexes))
		want = vals[i]
		src = "DD " + hexes[i] + "\n"
	case "char":
		src = "DD 'A'+1\n"
		want = 66
	}
	vrt.Note("src", src)
	out, oc := Assemble(src, "s")
	vrt.Note("outcome", oc)
	vrt.NoteBytes("bytes", out)
	if oc != "ok" || diagnosed() || len(out) == 0 {
		vrt.Reach("c06l.rejected")
		return
	}
	vrt.Reach("c06l.accepted")
	var acc diffAcc
	acc.flag(len(out) != 4)
	if len(out) == 4 {
		acc.eqLE(out, want)
	}
	vrt.Assert(acc.d == 0, "c06.literal")
}
