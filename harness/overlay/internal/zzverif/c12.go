//go:build verif

package zzverif

import (
	"strings"

	"github.com/HobbyOSs/gosk/internal/zzverif/vrt"
)

func init() { vrt.Register("zzverif.VC12", VC12) }

// programs as statement lists; a statement is "mnemonic|operand|operand..."
// or a label "name:" or a directive/EQU line given verbatim with "=" prefix
var c12Progs = [][]string{
	{"=ORG 0x7c00", "MOV|AX|1", "=CYLS EQU 10", "next:", "MOV|CH|CYLS", "JMP|next", "DB|\"a;b#c,d\"|0", "msg:", "DW|msg", "MOV|AL|[SI+2]"},
	{"=[BITS 32]", "=GLOBAL _f", "_f:", "MOV|EAX|[ESP+4]", "ADD|EAX|[EBX+ESI*4+8]", "RET"},
	{"=X EQU 3", "=Y EQU X*2", "lbl:", "DB|X|Y", "RESB|4", "ALIGNB|8", "JE|lbl", "HLT"},
	{"GLOBAL|_fa|_fb|_fc", "EXTERN|_xa|_xb|_xc", "_fa:", "HLT", "_fb:", "NOP", "_fc:", "RET", "DW|_fa|_fb|_fc"},
}

// VC12: comments, spacing and line endings never change the output.
func VC12() {
	pi := vrt.Choose("prog", len(c12Progs))
	eol := []string{"\n", "\r\n", "\r"}[vrt.Choose("eol", 3)]
	comment := vrt.ChooseStr("comment", []string{"none", "semicolon-after", "hash-after", "own-line", "eof-no-newline", "after-with-blank"})
	indent, comma, opgap, trailing := "", ",", " ", ""
	blank := false
	if vrt.Param("full") != 0 {
		indent = []string{"", "\t", "    "}[vrt.Choose("indent", 3)]
		comma = []string{",", ", ", " ,\t", " , "}[vrt.Choose("comma", 4)]
		opgap = []string{" ", "\t", "  "}[vrt.Choose("opgap", 3)]
		blank = vrt.Choose("blank", 2) == 1
		trailing = []string{"", " ", "\t "}[vrt.Choose("trailing", 3)]
	} else {
		// quick tier: line ending x comment style are crossed; the other gaps
		// are swept one at a time
		switch vrt.ChooseStr("sweep", []string{"indent", "comma", "opgap", "blank", "trailing"}) {
		case "indent":
			indent = []string{"\t", "    "}[vrt.Choose("indent", 2)]
		case "comma":
			comma = []string{", ", " ,\t", " , "}[vrt.Choose("comma", 3)]
		case "opgap":
			opgap = []string{"\t", "  "}[vrt.Choose("opgap", 2)]
		case "blank":
			blank = true
		case "trailing":
			trailing = []string{" ", "\t "}[vrt.Choose("trailing", 2)]
		}
	}
	// two comment bytes are solver variables over printable ASCII (';', '#',
	// ',', quotes, brackets included)
	var ctext string
	if vrt.Choose("ckind", 2) == 0 {
		c0 := vrt.Byte("c0", 0x20, 0x7e)
		c1 := vrt.Byte("c1", 0x20, 0x7e)
		ctext = "c" + string([]byte{c0}) + ";,#\"[: x:" + string([]byte{c1})
	} else {
		// a two-byte UTF-8 character (what a decoded Shift_JIS or UTF-8
		// comment consists of), both bytes solver variables
		u0 := vrt.Byte("u0", 0xc2, 0xdf)
		u1 := vrt.Byte("u1", 0x80, 0xbf)
		ctext = "c" + string([]byte{u0, u1}) + ";,#\"[" + string([]byte{0xe3, 0x81, 0x82})
	}
	prog := c12Progs[pi]
	// canonical layout
	var canon strings.Builder
	for _, st := range prog {
		if strings.HasPrefix(st, "=") {
			canon.WriteString(st[1:])
		} else if strings.HasSuffix(st, ":") {
			canon.WriteString(st)
		} else {
			parts := strings.Split(st, "|")
			canon.WriteString(parts[0])
			if len(parts) > 1 {
				canon.WriteString(" " + strings.Join(parts[1:], ","))
			}
		}
		canon.WriteString("\n")
	}
	ref, ocr := AssembleT(canon.String(), nil, "ref")
	vrt.ResetDiag()
	// re-laid-out text
	var sb strings.Builder
	if comment == "own-line" {
		sb.WriteString("; " + ctext + eol)
	}
	for i, st := range prog {
		line := ""
		isLabel := strings.HasSuffix(st, ":") && !strings.HasPrefix(st, "=")
		switch {
		case strings.HasPrefix(st, "="):
			line = indent + st[1:]
		case isLabel:
			line = st // labels start at the beginning of the line
		default:
			parts := strings.Split(st, "|")
			line = indent + parts[0]
			if len(parts) > 1 {
				line += opgap + strings.Join(parts[1:], comma)
			}
		}
		line += trailing
		switch comment {
		case "semicolon-after", "after-with-blank":
			line += " ; " + ctext
		case "hash-after":
			line += "\t# " + ctext
		}
		last := i == len(prog)-1
		if last && comment == "eof-no-newline" {
			sb.WriteString(line + " ;" + ctext)
			break
		}
		sb.WriteString(line + eol)
		if comment == "own-line" && i%2 == 1 {
			sb.WriteString(indent + "# " + ctext + eol)
		}
		if blank || comment == "after-with-blank" {
			sb.WriteString(eol)
		}
	}
	src := sb.String()
	vrt.Note("src", src)
	out, oc := Assemble(src, "out")
	vrt.NoteBytes("ref", ref)
	vrt.NoteBytes("out", out)
	if ocr != "ok" {
		vrt.Reach("c12.rejected")
		return
	}
	vrt.Reach("c12.accepted")
	vrt.Assert(oc == "ok" && string(out) == string(ref), "c12.same")
}
