//go:build verif

package zzverif

import (
	"os"
	"strconv"
	"strings"

	"github.com/HobbyOSs/gosk/internal/zzverif/vrt"
)

func init() { vrt.Register("zzverif.VC10", VC10) }

var c10Pool = []string{
	"ORG 0x7c00 ; MOV AX,0 ; MOV SS,AX ; fin: ; HLT ; JMP fin",
	"[BITS 32] ; ORG 0x280000 ; MOV AX,0 ; MOV [ESP+6],AX ; entry: ; MOV ESI,entry ; HLT ; JMP entry",
	"QX EQU 3 ; QY EQU QX*2 ; DB QX,QY ; MOV AL,[BX-4+SI]",
	"ORG 0x7c00 ; MOV BX,buf ; MOV SI,8 ; MOV AL,[BX-4+SI] ; fin: ; HLT ; JMP fin ; buf: ; DB 1,2,3",
	"[BITS 32] ; MOV EAX,[EBX-4+ESI] ; ADD ECX,[EDX+ESI*2-8] ; RET",
	"DB \"hello\",0 ; RESB 4 ; ALIGNB 8 ; DW 0xaa55 ; DD 0x12345678",
	"MOV AX,L ; ADD BX,L ; CMP WORD [SI],L",
	"[BITS 32] ; GLOBAL _f, _g ; _f: ; MOV AX,0 ; RET ; _g: ; HLT ; RET",
	// a (diagnosed) self-referential EQU, used several times: whatever guard
	// handles it must not leave state behind for the next assembly ...
	"QS EQU QS+1 ; DB 1 ; MOV AL,QS ; MOV AL,QS ; MOV AL,QS ; MOV AL,QS",
	// ... such as this chain of EQUs, 30 deep
	c10Chain(30),
	// one name with a different meaning in each program: an EQU whose value is
	// a (forward) label and so does not reduce in pass 1, a numeric EQU, a
	// label.  Whatever an assembly remembers about the name must not survive it.
	"QV EQU qlbl ; MOV AX,QV ; qlbl: ; HLT",
	"QV EQU 0x12 ; MOV AL,QV ; MOV BX,QV+1 ; HLT",
	"ORG 0x100 ; NOP ; QV: ; MOV AX,QV ; JMP QV",
}

func c10Chain(n int) string {
	var sb strings.Builder
	for i := 0; i < n; i++ {
		sb.WriteString("QE" + strconv.Itoa(i) + " EQU QE" + strconv.Itoa(i+1) + "+1 ; ")
	}
	sb.WriteString("QE" + strconv.Itoa(n) + " EQU 7 ; DB QE0 ; MOV AL,QE0")
	return sb.String()
}

func c10Asm(prog string, l int64, tag, key string) ([]byte, string) {
	var sb subs
	text := strings.ReplaceAll(prog, " ; ", "\n") + "\n"
	for strings.Contains(text, ",L") {
		i := strings.Index(text, ",L")
		text = text[:i+1] + lit(l, &sb) + text[i+2:]
	}
	return AssembleTK(text, sb.list, tag, key)
}

func sameBytes(acc *diffAcc, a, b []byte) {
	acc.flag(len(a) != len(b))
	if len(a) == len(b) {
		for i := range a {
			acc.eq(uint64(a[i]), uint64(b[i]))
		}
	}
}

// VC10: the output of a program does not depend on what was assembled
// before it in the process, on re-using an already parsed tree, or on the
// previous content of the destination file.
func VC10() {
	a := vrt.Choose("earlier", len(c10Pool))
	b := vrt.Choose("program", len(c10Pool))
	l := immediate("L")
	// reference: b assembled in a fresh process
	oc := "ok"
	ref := vrt.Isolated(func() []byte {
		o, c := c10Asm(c10Pool[b], l, "ref", "r")
		if c != "ok" {
			return nil
		}
		return o
	})
	if ref == nil {
		oc = "rejected"
	}
	vrt.Note("program", c10Pool[b])
	vrt.Note("earlier", c10Pool[a])
	vrt.NoteBytes("ref", ref)
	if oc != "ok" {
		vrt.Reach("c10.rejected")
		return
	}
	vrt.Reach("c10.accepted")
	// something else is assembled in between (possibly the same program)
	c10Asm(c10Pool[a], l, "mid", "m")
	// the destination file already holds unrelated, longer content
	os.WriteFile(vrt.TempFile("again.out"), []byte(strings.Repeat("\xcc", 100)), 0666)
	again, oc2 := c10Asm(c10Pool[b], l, "again", "x")
	vrt.NoteBytes("again", again)
	var acc diffAcc
	acc.flag(oc2 != "ok")
	sameBytes(&acc, ref, again)
	vrt.Assert(acc.d == 0, "c10.history")
	// the same parsed tree, assembled a second and third time
	tree := LastTree
	for i := 0; i < 2; i++ {
		re, oc3 := ExecTree(tree, "again")
		var acc2 diffAcc
		acc2.flag(oc3 != "ok")
		sameBytes(&acc2, ref, re)
		vrt.Assert(acc2.d == 0, "c10.sametree")
	}
}
