//go:build verif

package zzverif

import (
	"strconv"
	"strings"

	"github.com/HobbyOSs/gosk/internal/zzverif/vrt"
)

func init() {
	vrt.Register("zzverif.VC05Data", VC05Data)
	vrt.Register("zzverif.VC05Str", VC05Str)
	vrt.Register("zzverif.VC05Resb", VC05Resb)
	vrt.Register("zzverif.VC05Align", VC05Align)
	vrt.Register("zzverif.VC05Silent", VC05Silent)
	vrt.Register("zzverif.VC05Label", VC05Label)
}

var c05Boundary = []int64{0, 1, -1, 127, 128, 255, 256, -128, -129, 32767, 32768, 65535, 65536, -32768, -32769, 2147483647, 2147483648, 4294967295, -2147483648}

// VC05Data: DB/DW/DD lists: one element of the list is a solver variable,
// the others are boundary constants; the output must be the little-endian
// low 8/16/32 bits of each element in order, and a label after the list must
// equal the number of bytes emitted.
func VC05Data() {
	dir := vrt.ChooseStr("dir", []string{"DB", "DW", "DD"})
	width := map[string]int{"DB": 1, "DW": 2, "DD": 4}[dir]
	n := []int{1, 2, 3, 8}[vrt.Choose("len", 4)]
	if vrt.Param("long") != 0 {
		n = []int{1, 2, 3, 8, 33, 64}[vrt.Choose("len", 6)]
	}
	pos := vrt.Choose("pos", n)
	vals := make([]int64, n)
	var sb subs
	parts := make([]string, n)
	for i := 0; i < n; i++ {
		if i == pos {
			vals[i] = immediate("v")
			parts[i] = lit(vals[i], &sb)
		} else {
			vals[i] = c05Boundary[(i*7+n)%len(c05Boundary)]
			parts[i] = strconv.FormatInt(vals[i], 10)
		}
	}
	src := dir + " " + strings.Join(parts, ",") + "\nlbl:\nDW lbl\n"
	vrt.Note("src", src)
	out, oc := AssembleT(src, sb.list, "s")
	vrt.Note("outcome", oc)
	vrt.NoteBytes("bytes", out)
	if oc != "ok" {
		vrt.Reach("c05.rejected")
		return
	}
	vrt.Reach("c05.accepted")
	var acc diffAcc
	acc.flag(len(out) != n*width+2)
	if len(out) == n*width+2 {
		for i := 0; i < n; i++ {
			for b := 0; b < width; b++ {
				acc.eq(uint64(out[i*width+b]), uint64(byte(vals[i]>>(8*uint(b)))))
			}
		}
		acc.eq(uint64(out[n*width]), uint64(byte(n*width)))
		acc.eq(uint64(out[n*width+1]), uint64(byte((n*width)>>8)))
	}
	vrt.Assert(acc.d == 0, "c05.data")
}

// VC05Str: string operands byte for byte, separators inside strings stay
// data; three of the bytes are solver variables.
func VC05Str() {
	layout := vrt.ChooseStr("layout", []string{"str", "num,str", "str,num", "str,str", "num,str,num", "utf8-2", "utf8-3", "empty", "empty,empty"})
	// printable ASCII except '"' and '\\', in three interval classes
	cls := [][2]byte{{0x20, 0x21}, {0x23, 0x5b}, {0x5d, 0x7e}}
	mk := func(name string) byte {
		c := cls[vrt.Choose("cls_"+name, 3)]
		return vrt.Byte(name, c[0], c[1])
	}
	s1 := []byte{'a', mk("c0"), ',', mk("c1"), ';'}
	s2 := []byte{'#', mk("c2"), ' '}
	var want []byte
	var text string
	q := func(b []byte) string { return "\"" + string(b) + "\"" }
	switch layout {
	case "str":
		text = q(s1)
		want = append(want, s1...)
	case "num,str":
		text = "7," + q(s1)
		want = append(append(want, 7), s1...)
	case "str,num":
		text = q(s1) + ",0"
		want = append(append(want, s1...), 0)
	case "str,str":
		text = q(s1) + "," + q(s2)
		want = append(append(want, s1...), s2...)
	case "num,str,num":
		text = "1," + q(s2) + ",10"
		want = append(append(append(want, 1), s2...), 10)
	case "empty":
		text = "\"\""
	case "empty,empty":
		text = "\"\",\"\""
	case "utf8-2":
		// a two-byte UTF-8 character with both bytes solver variables (what
		// the command line hands over for a non-ASCII string): DB emits the
		// bytes of the text, one per byte
		u := []byte{'a', vrt.Byte("u0", 0xc2, 0xdf), vrt.Byte("u1", 0x80, 0xbf), 'z'}
		text = q(u) + ",0"
		want = append(append(want, u...), 0)
	case "utf8-3":
		u := []byte{0xe3, vrt.Byte("u1", 0x80, 0xbf), vrt.Byte("u2", 0x80, 0xbf), '!'}
		text = "1," + q(u)
		want = append(append(want, 1), u...)
	}
	src := "DB " + text + "\nlbl:\nDW lbl\n"
	vrt.Note("src", src)
	out, oc := Assemble(src, "s")
	vrt.Note("outcome", oc)
	vrt.NoteBytes("bytes", out)
	if oc != "ok" {
		vrt.Reach("c05s.rejected")
		return
	}
	vrt.Reach("c05s.accepted")
	var acc diffAcc
	acc.flag(len(out) != len(want)+2)
	if len(out) == len(want)+2 {
		for i := range want {
			acc.eq(uint64(out[i]), uint64(want[i]))
		}
		acc.eq(uint64(out[len(want)]), uint64(len(want)))
		acc.eq(uint64(out[len(want)+1]), 0)
	}
	vrt.Assert(acc.d == 0, "c05.string")
}

// VC05Resb: RESB n and RESB addr-$ emit exactly n zero bytes.
func VC05Resb() {
	form := vrt.ChooseStr("form", []string{"const", "addr-$", "expr"})
	pre := []int{0, 1, 5}[vrt.Choose("pre", 3)]
	n := []int{0, 1, 2, 17, 64, 300}[vrt.Choose("n", 6)]
	org := []int{0, 0x7c00}[vrt.Choose("org", 2)]
	src := "ORG " + strconv.Itoa(org) + "\n"
	if pre > 0 {
		src += "DB " + strings.TrimSuffix(strings.Repeat("0x11,", pre), ",") + "\n"
	}
	switch form {
	case "const":
		src += "RESB " + strconv.Itoa(n) + "\n"
	case "addr-$":
		src += "RESB " + strconv.Itoa(org+pre+n) + "-$\n"
	case "expr":
		src += "RESB " + strconv.Itoa(n) + "+2-2\n"
	}
	src += "lbl:\nDB 0x22\nDW lbl\n"
	vrt.Note("src", src)
	out, oc := AssembleT(src, nil, "s")
	vrt.Note("outcome", oc)
	vrt.NoteBytes("bytes", out)
	if oc != "ok" {
		vrt.Reach("c05r.rejected")
		return
	}
	vrt.Reach("c05r.accepted")
	ok := len(out) == pre+n+3
	if ok {
		for i := 0; i < pre; i++ {
			ok = ok && out[i] == 0x11
		}
		for i := pre; i < pre+n; i++ {
			ok = ok && out[i] == 0
		}
		v := org + pre + n
		ok = ok && out[pre+n] == 0x22 && out[pre+n+1] == byte(v) && out[pre+n+2] == byte(v>>8)
	}
	vrt.Assert(ok, "c05.resb")
}

// VC05Align: ALIGNB n at every residue pads with the fewest zero bytes that
// bring the current address to a multiple of n.
func VC05Align() {
	n := []int{1, 2, 4, 8, 16, 32, 64}[vrt.Choose("n", 7)]
	k := vrt.Choose("k", n+1) // bytes before the ALIGNB
	org := []int{0, 0x7c00, 0x100, 0x7c02}[vrt.Choose("org", 4)]
	src := "ORG " + strconv.Itoa(org) + "\n"
	if k > 0 {
		src += "DB " + strings.TrimSuffix(strings.Repeat("0x11,", k), ",") + "\n"
	}
	src += "ALIGNB " + strconv.Itoa(n) + "\nlbl:\nDB 0x22\nDW lbl\n"
	vrt.Note("src", src)
	out, oc := AssembleT(src, nil, "s")
	vrt.Note("outcome", oc)
	vrt.NoteBytes("bytes", out)
	if oc != "ok" {
		vrt.Reach("c05a.rejected")
		return
	}
	vrt.Reach("c05a.accepted")
	pad := (n - (org+k)%n) % n
	ok := len(out) == k+pad+3
	if ok {
		for i := k; i < k+pad; i++ {
			ok = ok && out[i] == 0
		}
		v := org + k + pad
		ok = ok && out[k+pad] == 0x22 && out[k+pad+1] == byte(v) && out[k+pad+2] == byte(v>>8)
	}
	vrt.Assert(ok, "c05.alignb")
}

// VC05Silent: EQU, ORG, labels, GLOBAL/EXTERN and bracket directives emit
// nothing and do not move the location counter.
func VC05Silent() {
	stmts := []string{"X EQU 5", "X EQU 5*3+1", "here:", "GLOBAL foo", "EXTERN bar", "[BITS 32]", "[BITS 16]", "[INSTRSET \"i486p\"]",
		"[SECTION .text]", "[FILE \"a.nas\"]", "[OPTIMIZE 1]", "[PADDING 1]", "; comment only", "\t"}
	a := vrt.ChooseStr("a", stmts)
	b := vrt.ChooseStr("b", stmts)
	if a == b && (strings.HasSuffix(a, ":") || strings.Contains(a, "EQU")) {
		vrt.Assume(false)
	}
	if strings.Contains(a, "EQU") && strings.Contains(b, "EQU") {
		vrt.Assume(false)
	}
	src := "ORG 0x7c00\nDB 0x11\n" + a + "\n" + b + "\nlbl:\nDB 0x22\nDW lbl\n"
	vrt.Note("src", src)
	out, oc := AssembleT(src, nil, "s")
	vrt.Note("outcome", oc)
	vrt.NoteBytes("bytes", out)
	if oc != "ok" {
		vrt.Reach("c05e.rejected")
		return
	}
	vrt.Reach("c05e.accepted")
	ok := len(out) == 4 && out[0] == 0x11 && out[1] == 0x22 && out[2] == 0x01 && out[3] == 0x7c
	vrt.Assert(ok, "c05.silent")
}

// VC05Label: label operands of DW/DD with the origin a solver variable over
// 0..2^24: each element is the low 16/32 bits of the label's address, also
// when the address does not fit the element.
func VC05Label() {
	dir := vrt.ChooseStr("dir", []string{"DW", "DD"})
	width := map[string]int{"DW": 2, "DD": 4}[dir]
	layout := vrt.ChooseStr("layout", []string{"lbl", "7,lbl,9", "lbl,lbl2"})
	org := vrt.IntRange("org", 0, 1<<24)
	var sb subs
	src := "ORG " + lit(org, &sb) + "\nDB 1,2,3,4\nlbl:\nDB 5\nlbl2:\n" + dir + " " + layout + "\nend:\nDW end\n"
	vrt.Note("src", src)
	out, oc := AssembleT(src, sb.list, "s")
	vrt.Note("outcome", oc)
	vrt.NoteBytes("bytes", out)
	if oc != "ok" || diagnosed() {
		vrt.Reach("c05l.rejected")
		return
	}
	vrt.Reach("c05l.accepted")
	var want []int64
	switch layout {
	case "lbl":
		want = []int64{org + 4}
	case "7,lbl,9":
		want = []int64{7, org + 4, 9}
	case "lbl,lbl2":
		want = []int64{org + 4, org + 5}
	}
	var acc diffAcc
	n := 5 + len(want)*width
	acc.flag(len(out) != n+2)
	if len(out) == n+2 {
		for i, w := range want {
			acc.eqLE(out[5+i*width:5+(i+1)*width], w)
		}
		// the label behind the directive: the location counter advanced by
		// exactly the bytes emitted
		acc.eqLE(out[n:], org+int64(n))
	}
	vrt.Assert(acc.d == 0, "c05.label")
}
