//go:build verif

package zzverif

import (
	"github.com/HobbyOSs/gosk/internal/zzverif/vrt"
	"github.com/HobbyOSs/gosk/internal/zzverif/x86ref"
)

func init() {
	vrt.Register("zzverif.VC01NoOp", VC01NoOp)
	vrt.Register("zzverif.VC01", VC01)
}

// immediate returns a symbolic immediate restricted to the digit classes of
// the tier: quick = up to 5 digits or exactly 10 digits; thorough = 1..10.
func immediate(name string) int64 {
	v := vrt.Int64(name)
	if vrt.Param("alldigits") == 0 {
		// digit classes 1, 3, 5 and 10: every imm8/imm16/imm32 threshold
		// (127/128, 255/256, 32767/32768, 65535/65536, 2^31, 2^32) lies in one of them
		m := vrt.Abs64(v)
		vrt.Assume(vrt.Or(m < 10, vrt.And(m >= 100, m < 1000), vrt.And(m >= 10000, m < 100000), m >= 1000000000, m < 0))
	}
	return v
}

// pick2 chooses registers for a two-register form: in the quick tier one
// position sweeps all eight registers while the other takes one of two
// representatives; in the thorough tier the full cross product.
func pick2(sizeA, sizeB int) (string, string) {
	ra, rb := regsOf(sizeA), regsOf(sizeB)
	if liteRegs {
		return vrt.ChooseStr("ra", []string{ra[0], ra[3]}), vrt.ChooseStr("rb", []string{rb[6]})
	}
	if vrt.Param("allregs") != 0 {
		return vrt.ChooseStr("ra", ra), vrt.ChooseStr("rb", rb)
	}
	if vrt.Choose("sweep", 2) == 0 {
		a := vrt.ChooseStr("ra", ra)
		b := vrt.ChooseStr("rb", []string{rb[6]})
		return a, b
	}
	a := vrt.ChooseStr("ra", []string{ra[3]})
	b := vrt.ChooseStr("rb", rb)
	return a, b
}

var c01Sizes = []int{8, 16, 32}

// liteRegs restricts register choices to one or two representatives (used by
// harnesses whose subject is not the register number).
var liteRegs bool

// anyReg chooses any register of the width (two representatives when lite).
func anyReg(name string, size int) string {
	rs := regsOf(size)
	if liteRegs {
		return vrt.ChooseStr(name, []string{rs[0], rs[3]})
	}
	return vrt.ChooseStr(name, rs)
}

func aluOp() string {
	if liteRegs {
		return vrt.ChooseStr("alu", []string{"ADD", "CMP"})
	}
	return vrt.ChooseStr("alu", alu)
}

// pickReg chooses a register of the given width: every register in the
// thorough tier; the accumulator and three others in the quick tier.
func pickReg(name string, size int) string {
	rs := regsOf(size)
	if liteRegs {
		return vrt.ChooseStr(name, []string{rs[0], rs[3]})
	}
	if vrt.Param("allregs") != 0 {
		return vrt.ChooseStr(name, rs)
	}
	return vrt.ChooseStr(name, []string{rs[0], rs[1], rs[5], rs[7]})
}

// memShapeFew is memShape restricted (quick tier) to one 16-bit and one
// 32-bit shape, for forms whose subject is the immediate.
func memShapeFew(mode int) MemSpec {
	if vrt.Param("allregs") != 0 {
		return memShape(mode)
	}
	if vrt.Choose("maddr", 2) == 0 {
		return MemSpec{Base: "SI", Disp: 4, HasDisp: true}
	}
	return MemSpec{Base: "EBX"}
}

// memShape returns one representative memory operand per addressing class.
func memShape(mode int) MemSpec {
	shapes16 := []MemSpec{{Base: "BX"}, {Base: "SI", Disp: 4, HasDisp: true}, {Base: "BP", Index: "DI"}, {Disp: 0x1234, HasDisp: true}}
	shapes32 := []MemSpec{{Base: "EBX"}, {Base: "ESI", Disp: 4, HasDisp: true}, {Base: "EBP", Index: "EDI", Scale: 4, Disp: 300, HasDisp: true}, {Base: "ESP", Disp: 8, HasDisp: true}, {Disp: 0x12345, HasDisp: true}, {Index: "ESI", Scale: 4, Disp: 0x100, HasDisp: true}}
	if vrt.Choose("maddr", 2) == 0 {
		return shapes16[vrt.Choose("mshape", len(shapes16))]
	}
	return shapes32[vrt.Choose("mshape", len(shapes32))]
}

var alu = []string{"ADD", "SUB", "CMP", "AND", "OR", "XOR"}
var c01Forms = []string{
	"mov_rr", "mov_ri", "mov_rm", "mov_mr", "mov_mi", "mov_sr", "mov_rs", "mov_sm", "mov_ms", "mov_cr", "mov_rc", "mov_acc_abs", "mov_abs_acc",
	"alu_rr", "alu_ri", "alu_rm", "alu_mr", "alu_mi", "not_r", "not_m", "shift_ri", "shift_mi", "imul_ri", "imul_rr",
	"in_imm", "in_dx", "out_imm", "out_dx", "push_r", "pop_r", "push_s", "pop_s", "push_i", "push_m", "pop_m", "int_n", "ret", "lgdt",
}

func buildC01(form string, mode int) Stmt {
	size := func() int { return c01Sizes[vrt.Choose("size", 3)] }
	size1632 := func() int { return []int{16, 32}[vrt.Choose("size", 2)] }
	switch form {
	case "mov_rr":
		sz := size()
		a, b := pick2(sz, sz)
		return mkStmt("MOV", mode, R(a), R(b))
	case "mov_ri":
		sz := size()
		return mkStmt("MOV", mode, R(pickReg("ra", sz)), I(immediate("imm")))
	case "mov_rm":
		sz := size()
		return mkStmt("MOV", mode, R(anyReg("ra", sz)), M(memShape(mode)))
	case "mov_mr":
		sz := size()
		return mkStmt("MOV", mode, M(memShape(mode)), R(anyReg("ra", sz)))
	case "mov_mi":
		sz := size()
		m := memShapeFew(mode)
		m.SizeKw = kwOf(sz)
		return mkStmt("MOV", mode, M(m), I(immediate("imm")))
	case "mov_sr":
		return mkStmt("MOV", mode, R(vrt.ChooseStr("sr", []string{"ES", "SS", "DS", "FS", "GS"})), R(vrt.ChooseStr("ra", r16)))
	case "mov_rs":
		return mkStmt("MOV", mode, R(vrt.ChooseStr("ra", r16)), R(vrt.ChooseStr("sr", sregs)))
	case "mov_sm":
		st := mkStmt("MOV", mode, R(vrt.ChooseStr("sr", []string{"ES", "SS", "DS", "FS", "GS"})), M(memShapeFew(mode)))
		st.Want.Ops[1].Size = 0 // a 16-bit load whatever the operand-size attribute
		return st
	case "mov_ms":
		st := mkStmt("MOV", mode, M(memShapeFew(mode)), R(vrt.ChooseStr("sr", sregs)))
		st.Want.Ops[0].Size = 0
		return st
	case "mov_cr":
		return mkStmt("MOV", mode, R(vrt.ChooseStr("cr", cregs)), R(vrt.ChooseStr("ra", r32)))
	case "mov_rc":
		return mkStmt("MOV", mode, R(vrt.ChooseStr("ra", r32)), R(vrt.ChooseStr("cr", cregs)))
	case "mov_acc_abs":
		sz := size()
		return mkStmt("MOV", mode, R(regsOf(sz)[0]), M(MemSpec{Disp: vrt.IntRange("abs", 0, 65535), HasDisp: true}))
	case "mov_abs_acc":
		sz := size()
		return mkStmt("MOV", mode, M(MemSpec{Disp: vrt.IntRange("abs", 0, 65535), HasDisp: true}), R(regsOf(sz)[0]))
	case "alu_rr":
		sz := size()
		a, b := pick2(sz, sz)
		return mkStmt(aluOp(), mode, R(a), R(b))
	case "alu_ri":
		sz := size()
		return mkStmt(aluOp(), mode, R(pickReg("ra", sz)), I(immediate("imm")))
	case "alu_rm":
		sz := size()
		return mkStmt(aluOp(), mode, R(anyReg("ra", sz)), M(memShape(mode)))
	case "alu_mr":
		sz := size()
		return mkStmt(aluOp(), mode, M(memShape(mode)), R(anyReg("ra", sz)))
	case "alu_mi":
		sz := size()
		m := memShapeFew(mode)
		m.SizeKw = kwOf(sz)
		return mkStmt(aluOp(), mode, M(m), I(immediate("imm")))
	case "not_r":
		sz := size()
		return mkStmt("NOT", mode, R(anyReg("ra", sz)))
	case "not_m":
		sz := size()
		m := memShape(mode)
		m.SizeKw = kwOf(sz)
		return mkStmt("NOT", mode, M(m))
	case "shift_ri":
		sz := size()
		st := mkStmt(vrt.ChooseStr("sh", []string{"SHL", "SHR", "SAR"}), mode, R(pickReg("ra", sz)), I(vrt.IntRange("cnt", 0, 255)))
		st.Want.Ops[1].Size = 8
		return st
	case "shift_mi":
		sz := size()
		m := memShapeFew(mode)
		m.SizeKw = kwOf(sz)
		st := mkStmt(vrt.ChooseStr("sh", []string{"SHL", "SHR", "SAR"}), mode, M(m), I(vrt.IntRange("cnt", 0, 255)))
		st.Want.Ops[1].Size = 8
		return st
	case "imul_ri":
		sz := size1632()
		r := pickReg("ra", sz)
		st := mkStmt("IMUL", mode, R(r), I(immediate("imm")))
		// IMUL r,imm is IMUL r,r,imm
		st.Want.NOps = 3
		st.Want.Ops[2] = st.Want.Ops[1]
		st.Want.Ops[1] = st.Want.Ops[0]
		return st
	case "imul_rr":
		sz := size1632()
		a, b := pick2(sz, sz)
		return mkStmt("IMUL", mode, R(a), R(b))
	case "in_imm":
		sz := size()
		st := mkStmt("IN", mode, R(regsOf(sz)[0]), I(vrt.IntRange("port", 0, 255)))
		st.Want.Ops[1].Size = 8
		return st
	case "in_dx":
		sz := size()
		return mkStmt("IN", mode, R(regsOf(sz)[0]), R("DX"))
	case "out_imm":
		sz := size()
		st := mkStmt("OUT", mode, I(vrt.IntRange("port", 0, 255)), R(regsOf(sz)[0]))
		st.Want.Ops[0].Size = 8
		st.Want.OpSize = sz
		return st
	case "out_dx":
		sz := size()
		st := mkStmt("OUT", mode, R("DX"), R(regsOf(sz)[0]))
		st.Want.OpSize = sz
		return st
	case "push_r":
		sz := size1632()
		return mkStmt("PUSH", mode, R(anyReg("ra", sz)))
	case "pop_r":
		sz := size1632()
		return mkStmt("POP", mode, R(anyReg("ra", sz)))
	case "push_s":
		return mkStmt("PUSH", mode, R(vrt.ChooseStr("sr", sregs)))
	case "pop_s":
		return mkStmt("POP", mode, R(vrt.ChooseStr("sr", []string{"ES", "SS", "DS", "FS", "GS"})))
	case "push_i":
		return mkStmt("PUSH", mode, I(immediate("imm")))
	case "push_m":
		sz := size1632()
		m := memShape(mode)
		m.SizeKw = kwOf(sz)
		return mkStmt("PUSH", mode, M(m))
	case "pop_m":
		sz := size1632()
		m := memShape(mode)
		m.SizeKw = kwOf(sz)
		return mkStmt("POP", mode, M(m))
	case "int_n":
		st := mkStmt("INT", mode, I(vrt.IntRange("n", 0, 255)))
		st.Want.Ops[0].Size = 8
		return st
	case "ret":
		return mkStmt("RET", mode)
	case "lgdt":
		m := memShape(mode)
		st := mkStmt("LGDT", mode, M(m))
		st.Want.Ops[0].Size = 0
		return st
	}
	panic("unknown form " + form)
}

// checkStmt assembles one statement and, when gosk accepts it without a
// diagnostic, requires the emitted bytes to decode to exactly that statement.
func checkStmt(st Stmt, mode int, id string) {
	var out []byte
	var oc string
	if vrt.Param("fulltext") != 0 {
		// decimal text of every literal through both parsers
		src := bitsHeader(mode) + st.Text() + "\n"
		vrt.Note("src", src)
		out, oc = Assemble(src, "s")
	} else {
		t, sb := st.Template()
		src := bitsHeader(mode) + t + "\n"
		vrt.Note("src", src)
		out, oc = AssembleT(src, sb, "s")
	}
	vrt.Note("outcome", oc)
	vrt.NoteBytes("bytes", out)
	if oc != "ok" || diagnosed() {
		vrt.Reach(id + ".rejected")
		return
	}
	vrt.Reach(id + ".accepted")
	inst, ok := x86ref.Decode(out, mode, 0)
	var acc diffAcc
	acc.flag(!ok)
	acc.flag(inst.Len != len(out))
	compareInst(&acc, inst, st.Want)
	vrt.Assert(acc.d == 0, id)
}

// VC01: emitted bytes decode to exactly the source instruction.
func VC01() {
	mode := []int{16, 32}[vrt.Choose("mode", 2)]
	form := vrt.ChooseStr("form", c01Forms)
	st := buildC01(form, mode)
	checkStmt(st, mode, "c01.decode")
}

// no-operand instructions: mnemonic, the decoder's name for it, and the
// operand size it denotes (0: the mode's own size or size-less; 16/32: that
// size whatever the mode, so a 66h prefix is needed in the other mode)
var c01NoOps = []struct {
	mn, op string
	size   int
}{
	{"HLT", "HLT", 0}, {"NOP", "NOP", 0}, {"CLI", "CLI", 0}, {"STI", "STI", 0}, {"CLD", "CLD", 0}, {"STD", "STD", 0}, {"CLC", "CLC", 0}, {"STC", "STC", 0}, {"CMC", "CMC", 0},
	{"LAHF", "LAHF", 0}, {"SAHF", "SAHF", 0}, {"LEAVE", "LEAVE", 0}, {"WAIT", "WAIT", 0}, {"INTO", "INTO", 0}, {"RET", "RET", 0}, {"RETF", "RETF", 0}, {"XLATB", "XLATB", 0},
	{"AAA", "AAA", 0}, {"AAS", "AAS", 0}, {"DAA", "DAA", 0}, {"DAS", "DAS", 0}, {"AAD", "AAD", 0}, {"AAM", "AAM", 0},
	{"CPUID", "CPUID", 0}, {"CLTS", "CLTS", 0}, {"INVD", "INVD", 0}, {"WBINVD", "WBINVD", 0}, {"RDMSR", "RDMSR", 0}, {"WRMSR", "WRMSR", 0}, {"RDPMC", "RDPMC", 0}, {"RDTSC", "RDTSC", 0}, {"RSM", "RSM", 0}, {"UD2", "UD2", 0},
	{"CBW", "CBW", 16}, {"CWDE", "CWDE", 32}, {"CWD", "CWD", 16}, {"CDQ", "CDQ", 32},
	{"PUSHA", "PUSHA", 0}, {"POPA", "POPA", 0}, {"PUSHF", "PUSHF", 0}, {"POPF", "POPF", 0}, {"IRET", "IRET", 0},
	{"PUSHAD", "PUSHA", 32}, {"POPAD", "POPA", 32}, {"PUSHFD", "PUSHF", 32}, {"POPFD", "POPF", 32}, {"IRETD", "IRET", 32},
	{"PUSHAW", "PUSHA", 16}, {"POPAW", "POPA", 16}, {"PUSHFW", "PUSHF", 16}, {"POPFW", "POPF", 16}, {"IRETW", "IRET", 16},
	{"MOVSB", "MOVSB", 0}, {"MOVSW", "MOVSW", 16}, {"MOVSD", "MOVSW", 32}, {"CMPSB", "CMPSB", 0}, {"CMPSW", "CMPSW", 16}, {"CMPSD", "CMPSW", 32},
	{"STOSB", "STOSB", 0}, {"STOSW", "STOSW", 16}, {"STOSD", "STOSW", 32}, {"LODSB", "LODSB", 0}, {"LODSW", "LODSW", 16}, {"LODSD", "LODSW", 32},
	{"SCASB", "SCASB", 0}, {"SCASW", "SCASW", 16}, {"SCASD", "SCASW", 32}, {"INSB", "INSB", 0}, {"INSW", "INSW", 16}, {"INSD", "INSW", 32},
	{"OUTSB", "OUTSB", 0}, {"OUTSW", "OUTSW", 16}, {"OUTSD", "OUTSW", 32},
}

// VC01NoOp: instructions without operands: the bytes decode to that
// instruction at the operand size its name fixes (CWDE, PUSHAD, MOVSD are
// 32-bit operations in 16-bit code too: a 66h prefix is then required, and
// must be absent where the name's size is the mode's).
func VC01NoOp() {
	mode := []int{16, 32}[vrt.Choose("mode", 2)]
	names := make([]string, len(c01NoOps))
	for i, x := range c01NoOps {
		names[i] = x.mn
	}
	mnName := vrt.ChooseStr("mn", names)
	e := c01NoOps[0]
	for _, x := range c01NoOps {
		if x.mn == mnName {
			e = x
		}
	}
	src := bitsHeader(mode) + e.mn + "\nlbl:\nDW lbl\n"
	vrt.Note("src", src)
	out, oc := AssembleT(src, nil, "s")
	vrt.Note("outcome", oc)
	vrt.NoteBytes("bytes", out)
	if oc != "ok" || diagnosed() || len(out) < 3 {
		vrt.Reach("c01n.rejected")
		return
	}
	vrt.Reach("c01n.accepted")
	code := out[:len(out)-2]
	inst, ok := x86ref.Decode(code, mode, 0)
	var acc diffAcc
	acc.flag(!ok)
	acc.flag(inst.Len != len(code))
	acc.flag(inst.Op != e.op)
	if e.size != 0 {
		acc.flag(inst.OpSize != e.size)
	} else {
		acc.flag(inst.Has66) // a size-less instruction carries no operand-size prefix
	}
	if e.op == "AAD" || e.op == "AAM" {
		acc.flag(inst.NOps != 1 || inst.Ops[0].Imm != 10)
	}
	acc.eqLE(out[len(out)-2:], int64(len(code)))
	vrt.Assert(acc.d == 0, "c01.noop")
}
