//go:build verif

package zzverif

import (
	"strings"

	"github.com/HobbyOSs/gosk/internal/zzverif/vrt"
)

func init() { vrt.Register("zzverif.VC09", VC09) }

// VC09: the COFF object carries the same code as the flat binary and the
// right symbols.
func VC09() {
	layout := vrt.ChooseStr("layout", []string{"globals-first", "globals-last", "split", "reverse-order", "with-undefined", "subset", "duplicate", "two-reversed", "two-undefined-first", "one", "dup-then-new"})
	ln := []int{3, 8, 9, 20}[vrt.Choose("namelen", 4)]
	fileLen := []int{0, 8, 18}[vrt.Choose("filelen", 3)]
	a, b, c := nameOf(0, ln), nameOf(1, ln), nameOf(2, ln)
	ghost := nameOf(3, ln)
	file := ""
	if fileLen > 0 {
		file = ("naskfunc_long_name.nas")[:fileLen]
	}
	body := a + ":\n\tHLT\n\tRET\n" + b + ":\n\tNOP\n\tNOP\n\tRET\n" + c + ":\n\tMOV EAX,[ESP+4]\n\tRET\n"
	offsets := map[string]uint32{a: 0, b: 2, c: 5}
	var head, tail string
	var globals []string
	switch layout {
	case "globals-first":
		head = "\tGLOBAL " + a + ", " + b + ", " + c + "\n"
		globals = []string{a, b, c}
	case "globals-last":
		tail = "\tGLOBAL " + a + ", " + b + ", " + c + "\n"
		globals = []string{a, b, c}
	case "split":
		head = "\tGLOBAL " + a + "\n\tGLOBAL " + b + "\n"
		tail = "\tGLOBAL " + c + "\n"
		globals = []string{a, b, c}
	case "reverse-order":
		head = "\tGLOBAL " + c + ", " + b + ", " + a + "\n"
		globals = []string{a, b, c}
	case "with-undefined":
		head = "\tGLOBAL " + ghost + ", " + b + "\n\tGLOBAL " + a + "\n"
		globals = []string{a, b}
	case "duplicate":
		head = "\tGLOBAL " + a + ", " + b + "\n\tGLOBAL " + a + "\n"
		globals = []string{a, b}
	case "subset":
		head = "\tGLOBAL " + b + "\n"
		globals = []string{b}
	case "two-reversed":
		head = "\tGLOBAL " + c + ", " + a + "\n"
		globals = []string{a, c}
	case "two-undefined-first":
		head = "\tGLOBAL " + ghost + ", " + c + "\n"
		globals = []string{c}
	case "dup-then-new":
		head = "\tGLOBAL " + a + ", " + b + "\n\tGLOBAL " + a + ", " + c + "\n"
		globals = []string{a, b, c}
	case "one":
		head = "\tGLOBAL " + a + "\n"
		globals = []string{a}
	}
	pre := "[BITS 32]\n"
	if file != "" {
		pre += "[FILE \"" + file + "\"]\n"
	}
	flatSrc := pre + head + "[SECTION .text]\n" + body + tail
	coffSrc := "[FORMAT \"WCOFF\"]\n" + flatSrc
	vrt.Note("src", coffSrc)
	flat, oc1 := AssembleT(flatSrc, nil, "flat")
	obj, oc2 := AssembleT(coffSrc, nil, "coff")
	vrt.Note("outcome", oc1+"/"+oc2)
	vrt.NoteBytes("flat", flat)
	vrt.NoteBytes("coff", obj)
	if oc1 != "ok" || oc2 != "ok" {
		vrt.Reach("c09.rejected")
		return
	}
	vrt.Reach("c09.accepted")
	o, problem := readCoff(obj)
	vrt.Note("problem", problem)
	vrt.Assert(problem == "", "c09.valid")
	// same code
	vrt.Assert(string(o.Text) == string(flat), "c09.text")
	// each defined GLOBAL exactly once, external, section 1, value = offset
	ok := true
	for _, g := range globals {
		cnt := 0
		for _, s := range o.Syms {
			if s.Name == g {
				cnt++
				ok = ok && s.Class == 2 && s.Section == 1 && s.Value == offsets[g] && s.NAux == 0
			}
		}
		ok = ok && cnt == 1
	}
	vrt.Assert(ok, "c09.symbols")
	// order: defined externals ascending by value, undefined last
	ord := true
	var last uint32
	seenUndef := false
	for _, s := range o.Syms {
		if s.Class != 2 {
			continue
		}
		if s.Section == 0 {
			seenUndef = true
			continue
		}
		ord = ord && !seenUndef && s.Value >= last
		last = s.Value
	}
	if layout == "with-undefined" || layout == "two-undefined-first" {
		ord = ord && seenUndef
	}
	vrt.Assert(ord, "c09.order")
	// .file auxiliary record
	fileOK := len(o.Syms) > 0 && o.Syms[0].Name == ".file" && o.Syms[0].NAux == 1
	if fileOK {
		aux := o.Syms[0].Aux
		fileOK = strings.TrimRight(string(aux[:18]), "\x00") == file
	}
	vrt.Assert(fileOK, "c09.file")
}
