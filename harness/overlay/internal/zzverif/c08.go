//go:build verif

package zzverif

import (
	"strconv"
	"strings"

	"github.com/HobbyOSs/gosk/internal/zzverif/vrt"
)

func init() {
	vrt.Register("zzverif.VC08", VC08)
}

// ---- independent reader for i386 COFF objects ----

type coffSym struct {
	Name    string
	Value   uint32
	Section int16
	Class   byte
	NAux    byte
	Aux     []byte
	Index   int
}

type coffObj struct {
	NSect    int
	Text     []byte
	Syms     []coffSym
	NRecords int
}

func le16(b []byte) int { return int(b[0]) | int(b[1])<<8 }
func le32(b []byte) int {
	return int(b[0]) | int(b[1])<<8 | int(b[2])<<16 | int(b[3])<<24
}

// readCoff parses f and returns the object or the first inconsistency.
func readCoff(f []byte) (*coffObj, string) {
	n := len(f)
	if n < 20 {
		return nil, "file shorter than a COFF header"
	}
	if le16(f[0:]) != 0x14c {
		return nil, "machine is not 0x14c"
	}
	o := &coffObj{NSect: le16(f[2:])}
	if o.NSect != 3 {
		return nil, "number of sections is not 3"
	}
	if le16(f[16:]) != 0 {
		return nil, "optional header size not 0"
	}
	symtab, nsyms := le32(f[8:]), le32(f[12:])
	if n < 20+40*o.NSect {
		return nil, "section table outside the file"
	}
	names := []string{".text", ".data", ".bss"}
	dataEnd := 20 + 40*o.NSect
	for i := 0; i < o.NSect; i++ {
		h := f[20+40*i : 60+40*i]
		nm := strings.TrimRight(string(h[0:8]), "\x00")
		if nm != names[i] {
			return nil, "section " + strconv.Itoa(i) + " is not named " + names[i]
		}
		size, ptr := le32(h[16:]), le32(h[20:])
		prel, plin := le32(h[24:]), le32(h[28:])
		nrel, nlin := le16(h[32:]), le16(h[34:])
		if size > 0 {
			if ptr < 20+40*o.NSect || ptr+size > n {
				return nil, "raw data of " + nm + " outside the file"
			}
			if ptr != dataEnd {
				return nil, "raw data of " + nm + " does not follow the previous block"
			}
			dataEnd = ptr + size
			if i == 0 {
				o.Text = f[ptr : ptr+size]
			}
		} else if ptr < 0 || ptr > n {
			return nil, "raw pointer of empty " + nm + " outside the file"
		}
		if prel < 0 || prel+10*nrel > n || plin < 0 || plin+6*nlin > n {
			return nil, "relocation/line-number pointer of " + nm + " outside the file"
		}
	}
	if symtab != dataEnd {
		return nil, "symbol table does not follow the section data (PointerToSymbolTable " + strconv.Itoa(symtab) + ", data ends at " + strconv.Itoa(dataEnd) + ")"
	}
	stOff := symtab + 18*nsyms
	if symtab < 0 || nsyms < 0 || stOff+4 > n {
		return nil, "symbol table (" + strconv.Itoa(nsyms) + " records) runs past the end of the file"
	}
	stSize := le32(f[stOff:])
	if stSize < 4 || stOff+stSize != n {
		return nil, "string table length field " + strconv.Itoa(stSize) + " does not match the real size " + strconv.Itoa(n-stOff)
	}
	o.NRecords = nsyms
	for i := 0; i < nsyms; {
		r := f[symtab+18*i : symtab+18*i+18]
		s := coffSym{Value: uint32(le32(r[8:])), Section: int16(le16(r[12:])), Class: r[16], NAux: r[17], Index: i}
		if r[0] == 0 && r[1] == 0 && r[2] == 0 && r[3] == 0 {
			off := le32(r[4:])
			if off < 4 || off >= stSize {
				return nil, "long-name offset " + strconv.Itoa(off) + " of symbol record " + strconv.Itoa(i) + " outside the string table"
			}
			e := stOff + off
			for e < n && f[e] != 0 {
				e++
			}
			if e >= n {
				return nil, "long name of symbol record " + strconv.Itoa(i) + " is not NUL-terminated"
			}
			s.Name = string(f[stOff+off : e])
		} else {
			s.Name = strings.TrimRight(string(r[0:8]), "\x00")
		}
		if i+1+int(s.NAux) > nsyms {
			return nil, "auxiliary records of symbol " + s.Name + " run past NumberOfSymbols"
		}
		if s.NAux > 0 {
			s.Aux = f[symtab+18*(i+1) : symtab+18*(i+1+int(s.NAux))]
		}
		if int(s.Section) > o.NSect || s.Section < -2 {
			return nil, "symbol " + s.Name + " has an invalid section number"
		}
		o.Syms = append(o.Syms, s)
		i += 1 + int(s.NAux)
	}
	return o, ""
}

var c08NameLens = []int{1, 7, 8, 9, 17, 18, 19, 40}

func nameOf(i, n int) string {
	// distinct names sharing a long common prefix
	base := "_" + string(rune('a'+i)) + "_common_prefix_shared_by_all_the_names_x"
	if n <= 2 {
		return string(rune('f' + i))[:1] + strings.Repeat("q", n-1)
	}
	return base[:n]
}

// c08Program builds a WCOFF program; returns source, the label offsets.
func c08Program(format bool, file string, globals []string, defined []bool, gaps []int) string {
	src := ""
	if format {
		src += "[FORMAT \"WCOFF\"]\n"
	}
	src += "[BITS 32]\n"
	if file != "" {
		src += "[FILE \"" + file + "\"]\n"
	}
	if len(globals) > 0 {
		src += "\tGLOBAL " + strings.Join(globals, ", ") + "\n"
	}
	src += "[SECTION .text]\n"
	seen := map[string]bool{}
	for i, g := range globals {
		if !defined[i] || seen[g] {
			continue
		}
		seen[g] = true
		src += g + ":\n"
		if gaps[i] > 0 {
			src += "\tRESB " + strconv.Itoa(gaps[i]) + "\n"
		}
		src += "\tRET\n"
	}
	return src
}

// VC08: the WCOFF output is a structurally valid COFF object.
func VC08() {
	ng := vrt.Choose("nglobals", 5)
	fileLen := []int{0, 1, 17, 18, 19, 40}[vrt.Choose("filelen", 6)]
	variant := vrt.ChooseStr("variant", []string{"all-defined", "one-undefined", "duplicate", "mixed-lengths", "big"})
	var globals []string
	var defined []bool
	var gaps []int
	lnIdx := vrt.Choose("namelen", len(c08NameLens))
	ln := c08NameLens[lnIdx]
	for i := 0; i < ng; i++ {
		l := ln
		if variant == "mixed-lengths" {
			l = c08NameLens[(i*3+lnIdx)%len(c08NameLens)]
		}
		globals = append(globals, nameOf(i, l))
		defined = append(defined, !(variant == "one-undefined" && i == 0))
		gaps = append(gaps, []int{0, 1, 254, 4}[i%4])
		if variant == "big" && i == 0 {
			// an object larger than any buffer a writer might start with
			gaps[0] = 5000
		}
	}
	if variant == "duplicate" && ng > 0 {
		globals = append(globals, globals[0])
		defined = append(defined, true)
		gaps = append(gaps, 0)
	}
	file := ""
	if fileLen > 0 {
		file = ("source_file_name_that_is_rather_long_for_coff.nas")[:fileLen]
	}
	src := c08Program(true, file, globals, defined, gaps)
	vrt.Note("src", src)
	out, oc := AssembleT(src, nil, "s")
	vrt.Note("outcome", oc)
	vrt.NoteBytes("bytes", out)
	if oc != "ok" {
		vrt.Reach("c08.rejected")
		return
	}
	vrt.Reach("c08.accepted")
	_, problem := readCoff(out)
	vrt.Note("problem", problem)
	vrt.Assert(problem == "", "c08.valid")
}
