//go:build verif

package codegen

import (
	"github.com/HobbyOSs/gosk/internal/zzverif/vrt"
	"github.com/HobbyOSs/gosk/internal/zzverif/x86ref"
	"github.com/HobbyOSs/gosk/pkg/cpu"
	"github.com/HobbyOSs/gosk/pkg/ng_operand"
)

func init() { vrt.Register("codegen.VC02K", VC02K) }

var vc02r32 = []string{"", "EAX", "ECX", "EDX", "EBX", "ESP", "EBP", "ESI", "EDI"}
var vc02i32 = []string{"", "EAX", "ECX", "EDX", "EBX", "EBP", "ESI", "EDI"}

// VC02K: calculateModRM on a directly built MemoryInfo, displacement over
// all of int64: the (ModR/M, SIB, displacement) triple, laid out as the ISA
// prescribes, must designate the address that MemoryInfo describes.
func VC02K() {
	mode := []int{16, 32}[vrt.Choose("mode", 2)]
	var mem ng_operand.MemoryInfo
	var want x86ref.EA
	addr := 32
	if vrt.Choose("addr", 2) == 0 {
		addr = 16
		shapes := [][2]string{{"BX", ""}, {"BP", ""}, {"SI", ""}, {"DI", ""}, {"BX", "SI"}, {"BX", "DI"}, {"BP", "SI"}, {"BP", "DI"}, {"", ""}}
		s := shapes[vrt.Choose("shape", len(shapes))]
		mem.BaseReg, mem.IndexReg = s[0], s[1]
		if mem.IndexReg != "" {
			mem.Scale = 1
		}
	} else {
		mem.BaseReg = vrt.ChooseStr("base", vc02r32)
		mem.IndexReg = vrt.ChooseStr("index", vc02i32)
		if mem.IndexReg != "" {
			mem.Scale = []int{1, 2, 4, 8}[vrt.Choose("scale", 4)]
		}
	}
	// 16-bit addressing in 32-bit mode is outside what calculateModRM is
	// asked to do by its callers only when a register is present
	if addr == 16 && mode == 32 && (mem.BaseReg != "" || mem.IndexReg != "") {
		vrt.Assume(false)
	}
	if mem.BaseReg == "" && mem.IndexReg == "" {
		addr = mode
	}
	hasDisp := vrt.Choose("hasdisp", 2) == 1
	d := int64(0)
	if hasDisp {
		d = vrt.Int64("disp")
	}
	mem.Displacement = d
	bm := cpu.MODE_16BIT
	if mode == 32 {
		bm = cpu.MODE_32BIT
	}
	regBits := byte(vrt.Choose("reg", 8)) << 3
	modrm, sib, disp, err := calculateModRM(&mem, bm, regBits)
	if err != nil {
		vrt.Reach("c02k.rejected")
		return
	}
	vrt.Reach("c02k.accepted")
	// expected linear form
	want.AddrSize = addr
	if mem.BaseReg != "" {
		n, _, _ := x86ref.RegNum(mem.BaseReg)
		want.Coef[n]++
		want.SegSS = n == 4 || n == 5
	}
	if mem.IndexReg != "" {
		n, _, _ := x86ref.RegNum(mem.IndexReg)
		want.Coef[n] += mem.Scale
	}
	want.Disp = uint32(d)
	if addr == 16 {
		want.Disp &= 0xffff
	}
	// lay the triple out as an instruction: [67h] 8B modrm [sib] disp
	var code []byte
	if addr != mode {
		code = append(code, 0x67)
	}
	code = append(code, 0x8b, modrm)
	if addr == 32 && modrm&7 == 4 && modrm>>6 != 3 {
		code = append(code, sib)
	}
	code = append(code, disp...)
	vrt.NoteBytes("bytes", code)
	inst, ok := x86ref.Decode(code, mode, 0)
	bad := uint64(0)
	if !ok || inst.Len != len(code) || inst.NOps != 2 || inst.Ops[1].Kind != x86ref.KMem {
		bad = 1
	} else {
		got := inst.Ops[1].EA
		for i := 0; i < 8; i++ {
			if got.Coef[i] != want.Coef[i] {
				bad |= 1
			}
		}
		if got.AddrSize != want.AddrSize {
			bad |= 1
		}
		bad |= uint64(got.Disp ^ want.Disp)
		if inst.Ops[0].Reg != int(regBits>>3) {
			bad |= 1
		}
	}
	vrt.Assert(bad == 0, "c02k.ea")
}
