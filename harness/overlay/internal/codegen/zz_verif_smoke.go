//go:build verif

package codegen

import (
	"github.com/HobbyOSs/gosk/internal/zzverif/vrt"
	"github.com/HobbyOSs/gosk/pkg/cpu"
	"github.com/HobbyOSs/gosk/pkg/ng_operand"
)

func init() { vrt.Register("codegen.VSmoke", VSmoke) }

// VSmoke: engine smoke test on calculateModRM [EBX+disp].
func VSmoke() {
	d := vrt.Int64("disp")
	mem := &ng_operand.MemoryInfo{BaseReg: "EBX", Displacement: d}
	modrm, sib, disp, err := calculateModRM(mem, cpu.MODE_32BIT, 0)
	vrt.Assert(err == nil, "smoke.noerr")
	vrt.Assert(sib == 0, "smoke.nosib")
	vrt.Assert(modrm&7 == 3, "smoke.rm")
	if d == 0 {
		vrt.Assert(len(disp) == 0, "smoke.nodisp")
	} else if d >= -128 && d <= 127 {
		vrt.Assert(len(disp) == 1 && int8(disp[0]) == int8(d), "smoke.disp8")
	} else {
		vrt.Assert(len(disp) == 4, "smoke.disp32len")
		v := uint32(disp[0]) | uint32(disp[1])<<8 | uint32(disp[2])<<16 | uint32(disp[3])<<24
		vrt.Assert(v == uint32(d), "smoke.disp32")
	}
	vrt.Reach("smoke.end")
}

func init() { vrt.Register("codegen.VSmokeBad", VSmokeBad) }

// VSmokeBad is the engine's self-test twin: it states something false about
// calculateModRM ([EBX+disp] never needs four displacement bytes) and must
// come back violated, with a model that reproduces natively.
func VSmokeBad() {
	d := vrt.Int64("disp")
	mem := &ng_operand.MemoryInfo{BaseReg: "EBX", Displacement: d}
	_, _, disp, _ := calculateModRM(mem, cpu.MODE_32BIT, 0)
	vrt.Assert(len(disp) != 4, "smokebad.never4")
}
