#!/bin/bash
# runs every thorough tier in sequence (diagnostic helper; not registered in MANIFEST)
cd "$(dirname "$0")"
mkdir -p bin
(cd engine && GOFLAGS=-mod=mod GOPROXY=off GOSUMDB=off GOTOOLCHAIN=local go build -o ../bin/gosym ./cmd/gosym) || exit 2
for p in ${@:-C04 C05 C06 C07 C08 C09 C10 C11 C12 C15 C16 C17 C18 C14 C13 C02 C03 C01}; do
  s=$(date +%s)
  timeout 5400 bin/gosym check -property $p -tier thorough -no-evidence > thorough_$p.log 2>&1
  rc=$?
  echo "$p rc=$rc $(( $(date +%s) - s ))s $(grep '^property=' thorough_$p.log | cut -c1-170)"
  grep -E "^(VIOLATION|INCONCLUSIVE)" thorough_$p.log | head -3
done
