package main

import (
	"bytes"
	"crypto/sha1"
	"encoding/json"
	"flag"
	"fmt"
	"os"
	"os/exec"
	"path/filepath"
	"runtime"
	"runtime/pprof"
	"sort"
	"strconv"
	"strings"
	"sync"
	"sync/atomic"
	"time"

	"verif/engine/gosym"
)

const zzPkg = "github.com/HobbyOSs/gosk/internal/zzverif"

type harnessSpec struct {
	Func     string // pkgpath.Func
	Discover int    // number of leading Choose decisions that define a cell
	Digits   int
	MapPerms bool
	Reach    []string // reachability witnesses that must be hit
	MaxSteps int64
	Params   map[string]int
}

type tierSpec struct {
	Harnesses       []harnessSpec
	AssertTimeoutMs int
}

type propSpec struct {
	ID            string
	Quick         tierSpec
	Thorough      tierSpec
	Bounds        []string
	OutsideBounds []string
	Assumptions   []string
	CLI           bool // harnesses run the command's main(): initialise it, build the real binary for replay
}

type job struct {
	h      harnessSpec
	prefix []int
}

type evidence struct {
	PropertyID  string                 `json:"property_id"`
	Tier        string                 `json:"tier"`
	Seed        int64                  `json:"seed"`
	Level       string                 `json:"level"`
	Coverage    map[string]interface{} `json:"coverage"`
	Assumptions []string               `json:"assumptions"`
	WallS       float64                `json:"wall_s"`
	Violations  int                    `json:"violations"`
}

func runCheck(args []string) int {
	fs := flag.NewFlagSet("check", flag.ExitOnError)
	repo := fs.String("repo", "/repo", "repository")
	verif := fs.String("verif", "/verif", "verif dir")
	prop := fs.String("property", "", "property id")
	tier := fs.String("tier", "quick", "quick|thorough")
	workers := fs.Int("workers", 14, "worker interpreters")
	only := fs.String("only", "", "restrict to harnesses containing this substring")
	noEvidence := fs.Bool("no-evidence", false, "do not write evidence")
	verbose := fs.Bool("v", false, "verbose")
	dump := fs.String("dump-violations", "", "write all violations (JSON lines) to this file")
	cellFilter := fs.String("cell", "", "only run cells whose prefix (e.g. \"0 12\") starts with this")
	fs.Parse(args)
	if env := os.Getenv("VERIF_TIER"); env != "" && *tier == "" {
		*tier = env
	}
	seed := int64(0)
	fmt.Sscan(os.Getenv("VERIF_SEED"), &seed)

	spec, ok := properties[*prop]
	if !ok {
		fmt.Printf("unknown property %q\n", *prop)
		return 2
	}
	ts := spec.Quick
	if *tier == "thorough" {
		ts = spec.Thorough
	}
	t0 := time.Now()
	findings, _, err := gosym.LoadFindings(filepath.Join(*verif, "KNOWN_FINDINGS.txt"))
	if err != nil {
		fmt.Println("ERROR:", err)
		return 2
	}
	var mine []*gosym.Finding
	for _, f := range findings {
		if f.Property == *prop {
			mine = append(mine, f)
		}
	}
	ovroot := filepath.Join(*verif, "harness", "overlay")
	ov, err := overlayFrom(ovroot, *repo)
	if err != nil {
		fmt.Println("ERROR:", err)
		return 2
	}
	cfg := &gosym.Config{RepoDir: *repo, Overlay: ov, Tags: "verif", Patterns: []string{"./..."},
		Findings: mine, AssertTimeoutMs: ts.AssertTimeoutMs, ValidatePerCell: 1}
	if *tier == "thorough" {
		cfg.ValidatePerCell = 3
	}
	prog, err := gosym.Load(cfg)
	if err != nil {
		fmt.Println("ERROR: cannot load /repo with harness overlay (does it still compile?):")
		fmt.Println(err)
		return 2
	}
	zz := prog.FindPackage(zzPkg)
	if zz == nil {
		fmt.Println("ERROR: harness package missing")
		return 2
	}

	// ---- discover cells ----
	var jobs []job
	disc, err := prog.NewInterp()
	if err != nil {
		fmt.Println("ERROR:", err)
		return 2
	}
	if err := disc.InitPackages(zz); err != nil {
		fmt.Println("ERROR:", err)
		return 2
	}
	if spec.CLI {
		if err := disc.InitCLI(); err != nil {
			fmt.Println("ERROR:", err)
			return 2
		}
	}
	inconclusive := []string{}
	for _, h := range ts.Harnesses {
		if *only != "" && !strings.Contains(h.Func, *only) {
			continue
		}
		fn := prog.FindFunc(h.Func)
		if fn == nil {
			fmt.Printf("ERROR: harness %s not found\n", h.Func)
			return 2
		}
		if h.Discover == 0 {
			jobs = append(jobs, job{h: h})
			continue
		}
		disc.SetOptions(gosym.Options{DiscoverDepth: h.Discover, MaxDigits: h.Digits, Params: h.Params})
		r := disc.RunHarness(fn, nil, nil)
		for _, inc := range r.Inconclusive {
			inconclusive = append(inconclusive, h.Func+" (discover): "+inc)
		}
		for _, p := range r.Prefixes {
			jobs = append(jobs, job{h: h, prefix: p})
		}
		if len(r.Prefixes) == 0 && len(r.Inconclusive) == 0 {
			// harness has fewer Choose points than Discover: run whole
			jobs = append(jobs, job{h: h})
		}
	}
	disc.Close()

	if *cellFilter != "" {
		var kept []job
		for _, j := range jobs {
			if strings.HasPrefix(strings.Trim(fmt.Sprint(j.prefix), "[]")+" ", *cellFilter+" ") {
				kept = append(kept, j)
			}
		}
		jobs = kept
	}
	if os.Getenv("GOSYM_MEM") != "" {
		go func() {
			for {
				time.Sleep(10 * time.Second)
				var ms runtime.MemStats
				runtime.ReadMemStats(&ms)
				if hp := os.Getenv("GOSYM_HEAPPROF"); hp != "" {
					f, _ := os.Create(hp)
					pprof.WriteHeapProfile(f)
					f.Close()
				}
				fmt.Fprintf(os.Stderr, "mem: heap_alloc=%dMB heap_inuse=%dMB sys=%dMB numgc=%d\n", ms.HeapAlloc>>20, ms.HeapInuse>>20, ms.Sys>>20, ms.NumGC)
			}
		}()
	}
	// ---- run cells ----
	nw := *workers
	if nw > len(jobs) {
		nw = len(jobs)
	}
	if nw < 1 {
		nw = 1
	}
	jobCh := make(chan job)
	type cellOut struct {
		j   job
		res *gosym.CellResult
	}
	var mu sync.Mutex
	// thorough tier: worker 0's whole solver session is recorded and replayed
	// through the other z3 build afterwards (answers must agree)
	crossLog := ""
	if *tier == "thorough" || os.Getenv("GOSYM_CROSSCHECK") != "" {
		if f, err := os.CreateTemp("", "gosym-solverlog-*.smt2"); err == nil {
			crossLog = f.Name()
			f.Close()
			defer os.Remove(crossLog)
		}
	}
	var stopAll int32
	violationsSoFar := 0
	var outs []cellOut
	var wg sync.WaitGroup
	stats := make([]gosym.Stats, nw)
	werrs := make([]error, nw)
	for w := 0; w < nw; w++ {
		wg.Add(1)
		go func(w int) {
			defer wg.Done()
			in, err := prog.NewInterp()
			if err == nil {
				err = in.InitPackages(zz)
			}
			if err == nil && spec.CLI {
				err = in.InitCLI()
			}
			if err != nil {
				werrs[w] = err
				for range jobCh {
				}
				return
			}
			defer in.Close()
			in.Stop = &stopAll
			if w == 0 && crossLog != "" {
				in.LogSolverTo(crossLog)
			}
			for j := range jobCh {
				fn := prog.FindFunc(j.h.Func)
				in.SetOptions(gosym.Options{MaxDigits: j.h.Digits, MapOrderPerms: j.h.MapPerms, MaxSteps: j.h.MaxSteps, Params: j.h.Params})
				if atomic.LoadInt32(&stopAll) != 0 {
					continue // enough violations already: the remaining cells are not explored
				}
				res := in.RunHarness(fn, j.prefix, nil)
				mu.Lock()
				outs = append(outs, cellOut{j, res})
				violationsSoFar += len(res.Violations)
				if violationsSoFar >= 20 {
					atomic.StoreInt32(&stopAll, 1)
				}
				if *verbose {
					fmt.Printf("  cell %s %v: paths=%d viol=%d inconcl=%d %.1fs\n", j.h.Func, j.prefix, res.Paths, len(res.Violations), len(res.Inconclusive), res.Wall)
				}
				mu.Unlock()
			}
			stats[w] = in.Stats
			if os.Getenv("GOSYM_PROFILE") != "" && w == 0 {
				in.DumpProfile(40)
			}
		}(w)
	}
	for _, j := range jobs {
		jobCh <- j
	}
	close(jobCh)
	wg.Wait()
	for _, e := range werrs {
		if e != nil {
			fmt.Println("ERROR: worker initialisation:", e)
			return 2
		}
	}
	var cross *crossResult
	if crossLog != "" {
		cross = crossCheck(crossLog, prog.SolverName())
	}

	if os.Getenv("GOSYM_MEM") != "" {
		var ms runtime.MemStats
		runtime.GC()
		runtime.ReadMemStats(&ms)
		fmt.Printf("mem: heap_alloc=%dMB sys=%dMB\n", ms.HeapAlloc>>20, ms.Sys>>20)
	}
	// ---- aggregate ----
	var total gosym.Stats
	funcs := map[string]bool{}
	for _, s := range stats {
		total.Paths += s.Paths
		total.Branches += s.Branches
		total.SolverQueries += s.SolverQueries
		total.Unsat += s.Unsat
		total.Sat += s.Sat
		total.Unknown += s.Unknown
		total.SolverNs += s.SolverNs
		total.Steps += s.Steps
		total.AssertQueries += s.AssertQueries
		total.DigitBoundPruned += s.DigitBoundPruned
		total.AtomLinks += s.AtomLinks
		total.TableAbstractions += s.TableAbstractions
		total.TableRefinements += s.TableRefinements
		for f := range s.Funcs {
			funcs[f] = true
		}
	}
	sort.Slice(outs, func(i, j int) bool {
		if outs[i].j.h.Func != outs[j].j.h.Func {
			return outs[i].j.h.Func < outs[j].j.h.Func
		}
		return fmt.Sprint(outs[i].j.prefix) < fmt.Sprint(outs[j].j.prefix)
	})
	var violations []*gosym.Violation
	violHarness := map[*gosym.Violation]string{}
	known := map[string]bool{}
	reached := map[string]map[string]bool{}
	var samples []interface{}
	paths, completed, assumeEnded, asserts, assertsUnsat, knownEnded := 0, 0, 0, 0, 0, 0
	for _, o := range outs {
		paths += o.res.Paths
		completed += o.res.Completed
		assumeEnded += o.res.AssumeEnded
		knownEnded += o.res.KnownEnded
		asserts += o.res.Asserts
		assertsUnsat += o.res.AssertsUnsat
		for _, v := range o.res.Violations {
			violations = append(violations, v)
			violHarness[v] = o.j.h.Func
		}
		for _, inc := range o.res.Inconclusive {
			inconclusive = append(inconclusive, fmt.Sprintf("%s %v: %s", o.j.h.Func, o.j.prefix, inc))
		}
		for k := range o.res.KnownHits {
			known[k] = true
		}
		if reached[o.j.h.Func] == nil {
			reached[o.j.h.Func] = map[string]bool{}
		}
		for k := range o.res.Reached {
			reached[o.j.h.Func][k] = true
		}
		if len(samples) < 6 && len(o.res.Samples) > 0 {
			samples = append(samples, map[string]interface{}{"harness": o.j.h.Func, "cell": o.j.prefix, "path": o.res.Samples[0]})
		}
	}
	if *dump != "" {
		f, _ := os.Create(*dump)
		for _, v := range violations {
			b, _ := json.Marshal(map[string]interface{}{"harness": violHarness[v], "id": v.ID, "model": v.Model, "chooses": v.Chooses, "labels": v.Labels, "notes": v.Notes})
			f.Write(b)
			f.WriteString("\n")
		}
		f.Close()
	}
	// vacuity guards
	for _, h := range ts.Harnesses {
		if *only != "" && !strings.Contains(h.Func, *only) {
			continue
		}
		for _, r := range h.Reach {
			if !reached[h.Func][r] {
				inconclusive = append(inconclusive, fmt.Sprintf("%s: reachability witness %q never reached (vacuous harness?)", h.Func, r))
			}
		}
	}
	if completed+knownEnded == 0 && len(violations) == 0 {
		inconclusive = append(inconclusive, "no path ran to completion (every path ended in Assume)")
	}

	// ---- translator validation and replay of violations (native runs) ----
	exit := 0
	reported := 0
	var replayNotes []string
	var validations []*gosym.ValidationSample
	for _, o := range outs {
		validations = append(validations, o.res.Validations...)
	}
	validated := 0
	var bin string
	var berr error
	if len(violations) > 0 || len(validations) > 0 {
		scratch, err := os.MkdirTemp("", "gosym-replay-")
		if err != nil {
			fmt.Println("ERROR:", err)
			return 2
		}
		defer os.RemoveAll(scratch)
		bin, berr = buildReplay(*repo, ovroot, scratch)
		if berr != nil {
			inconclusive = append(inconclusive, "cannot build native replay binary: "+berr.Error())
		} else {
			bad := validateAll(bin, *repo, scratch, validations, nw)
			validated = len(validations) - len(bad)
			for _, b := range bad {
				inconclusive = append(inconclusive, "translator validation: "+b)
			}
		}
	}
	if len(violations) > 0 {
		// report at most 5 distinct violations (by assertion id + harness)
		seen := map[string]int{}
		for _, v := range violations {
			key := violHarness[v] + "/" + v.ID
			seen[key]++
			if seen[key] > 2 || reported >= 8 {
				continue
			}
			path := writeReplay(*verif, *prop, violHarness[v], v)
			if berr != nil {
				inconclusive = append(inconclusive, "cannot build native replay binary: "+berr.Error())
				break
			}
			ok, note := runReplay(bin, *repo, violHarness[v], path, v)
			if ok {
				fmt.Printf("VIOLATION property=%s replay=%s\n", *prop, path)
				fmt.Printf("  harness=%s assertion=%s %s\n  model=%v chooses=%v notes=%v\n", violHarness[v], v.ID, v.Msg, v.Model, v.Chooses, v.Notes)
				exit = 1
				reported++
			} else {
				os.Remove(path)
				inconclusive = append(inconclusive, fmt.Sprintf("counterexample for %s/%s did not reproduce natively (%s); model=%v chooses=%v notes=%v", violHarness[v], v.ID, note, v.Model, v.Chooses, v.Notes))
			}
			replayNotes = append(replayNotes, note)
		}
	}
	for _, k := range sortedKeysB(known) {
		fmt.Printf("KNOWN-FINDING: %s\n", k)
	}
	if cross != nil {
		for _, d := range cross.Disagree {
			inconclusive = append(inconclusive, "solver cross-check: "+d)
		}
		fmt.Printf("solver cross-check (%s): %d queries replayed, %d agree, %d undecided by the second solver, %d disagree %s(%.1fs)\n",
			cross.Solver, cross.Queries, cross.Agree, cross.Unknown2, len(cross.Disagree), cross.Note, cross.WallS)
	}
	if len(inconclusive) > 0 {
		sort.Strings(inconclusive)
		fmt.Printf("INCONCLUSIVE property=%s (%d items)\n", *prop, len(inconclusive))
		for i, s := range inconclusive {
			if i >= 25 {
				fmt.Printf("  … %d more\n", len(inconclusive)-i)
				break
			}
			if len(s) > 1500 {
				s = s[:1500] + "…"
			}
			fmt.Println("  -", s)
		}
		if exit == 0 {
			exit = 2
		}
	}

	wall := time.Since(t0).Seconds()
	if !*noEvidence {
		var fl []string
		for f := range funcs {
			if strings.Contains(f, "HobbyOSs/gosk") && !strings.Contains(f, "zzverif") && !strings.Contains(f, "zz_verif") {
				fl = append(fl, strings.TrimPrefix(f, "github.com/HobbyOSs/gosk/"))
			} else if spec.CLI && (strings.Contains(f, "golang.org/x/text/") || strings.Contains(f, "golang.org/x/net/html/charset") || strings.HasPrefix(f, "flag.") || strings.HasPrefix(f, "(*flag.")) {
				// the library code the command line runs through, interpreted from SSA like gosk's own
				fl = append(fl, f)
			}
		}
		sort.Strings(fl)
		var hs []string
		for _, h := range ts.Harnesses {
			hs = append(hs, strings.TrimPrefix(h.Func, "github.com/HobbyOSs/gosk/"))
		}
		if len(spec.Bounds) == 0 {
			// bounds are documented per property in claims.json (level note)
			if b, err := os.ReadFile(filepath.Join(*verif, "claims.json")); err == nil {
				var cl map[string]map[string]string
				if json.Unmarshal(b, &cl) == nil {
					if e, ok := cl[*prop]; ok {
						spec.Bounds = []string{e["text"]}
						spec.OutsideBounds = []string{e["note"]}
					}
				}
			}
		}
		if len(samples) == 0 {
			samples = append(samples, map[string]interface{}{"note": "no completed path sampled"})
		}
		ev := evidence{PropertyID: *prop, Tier: *tier, Seed: seed, Level: "model_checking", WallS: wall, Violations: reported,
			Assumptions: append(append([]string{}, baseAssumptions...), spec.Assumptions...),
			Coverage: map[string]interface{}{
				"states":                        paths,
				"transitions":                   int(total.Branches) + 1,
				"traces_validated_against_impl": validated + len(replayNotes),
				"samples":                       samples,
				"cells":                         len(jobs),
				"harnesses":                     hs,
				"paths_completed":               completed,
				"paths_ended_by_assume":         assumeEnded,
				"paths_ended_in_known_finding":  knownEnded,
				"assertions_checked":            asserts,
				"assertions_discharged_unsat":   assertsUnsat,
				"functions_encoded":             fl,
				"functions_encoded_count":       len(fl),
				"bounds":                        spec.Bounds,
				"outside_bounds":                spec.OutsideBounds,
				"solver_queries":                total.SolverQueries,
				"solver_unsat":                  total.Unsat,
				"solver_sat":                    total.Sat,
				"solver_unknown":                total.Unknown,
				"solver_s":                      float64(total.SolverNs) / 1e9,
				"solver":                        prog.SolverName() + " -in (" + z3Version(prog.SolverName()) + ")",
				"ssa_instructions_interpreted":  total.Steps,
				"inconclusive":                  len(inconclusive),
				"known_findings_witnessed":      sortedKeysB(known),
				"reach_labels":                  reachLabels(reached),
				"digit_bound_pruned_paths":      total.DigitBoundPruned,
				"solver_cross_check":            cross.summary(),
				"table_reads_abstracted":        total.TableAbstractions,
				"table_refinement_facts":        total.TableRefinements,
				"encoding":                      "go/ssa of /repo working tree rebuilt this run (x/tools v0.29.0, InstantiateGenerics), harness overlay tag verif",
				"load_s":                        prog.LoadS,
				"ssa_build_s":                   prog.BuildS,
			}}
		os.MkdirAll(filepath.Join(*verif, "evidence"), 0755)
		b, _ := json.MarshalIndent(ev, "", " ")
		os.WriteFile(filepath.Join(*verif, "evidence", *prop+".json"), b, 0644)
	}
	fmt.Printf("property=%s tier=%s cells=%d paths=%d completed=%d asserts=%d unsat=%d queries=%d solver=%.1fs wall=%.1fs exit=%d\n",
		*prop, *tier, len(jobs), paths, completed, asserts, assertsUnsat, total.SolverQueries, float64(total.SolverNs)/1e9, wall, exit)
	return exit
}

var baseAssumptions = []string{
	"go/packages + go/ssa (x/tools v0.29.0) build the SSA of /repo's working tree faithfully",
	"engine instruction semantics for go/ssa (wrap-around bit-vector arithmetic at the Go width); cross-checked on sampled paths of every run by executing the natively compiled harness under the path's model and comparing the noted bytes",
	"solver answers (z3 5.1.0 as z3-new when present, else z3 4.8.12); any (error line or unknown makes the run inconclusive (exit 2), never a pass",
	"library models: fmt.Sprintf/Errorf verbs %s %d %v %x %q %T, strconv Itoa/FormatInt/Atoi/ParseInt/ParseUint (decimal text of a symbolic integer is a digit string whose value is the integer; proven thresholds fork on digit count), strings/bytes leaf functions, text/template for literal text with {{.name}} actions, os file API as an in-memory file system, sync as single-threaded no-ops; log output is not formatted (format strings recorded as diagnostics)",
	"instruction table: the embedded JSON is decoded natively and injected as interpreter values following the json tags of gosk's own types; gosk's Go code that post-processes it (fallback forms) is executed symbolically like everything else",
	"vrt.Once: a concrete, deterministic computation (parsing a literal-free template) is run once per cell and reused across that cell's paths",
	"'accepted without diagnostic' = run returned normally, no panic/exit, no recorded log/stdout line containing error/failed/unsupported/invalid/unknown/not found/not implemented or 'GOSK :' (generous on purpose: a lenient notion of diagnosed can only lose detections)",
}

func reachLabels(m map[string]map[string]bool) []string {
	all := map[string]bool{}
	for _, mm := range m {
		for k := range mm {
			all[k] = true
		}
	}
	return sortedKeysB(all)
}

func sortedKeysB(m map[string]bool) []string {
	ks := []string{}
	for k := range m {
		ks = append(ks, k)
	}
	sort.Strings(ks)
	return ks
}

var z3v string

func z3Version(bin string) string {
	if z3v == "" {
		out, _ := exec.Command(bin, "--version").Output()
		z3v = strings.TrimSpace(string(out))
	}
	return z3v
}

type replayFile struct {
	Property string            `json:"property"`
	Harness  string            `json:"harness"`
	AssertID string            `json:"assert_id"`
	Msg      string            `json:"msg"`
	Model    map[string]int64  `json:"model"`
	Chooses  map[string]int    `json:"chooses"`
	Params   map[string]int    `json:"params,omitempty"`
	Notes    map[string]string `json:"notes,omitempty"`
	PathCond []string          `json:"path_condition,omitempty"`
	Stack    string            `json:"stack,omitempty"`
}

func writeReplay(verif, prop, harness string, v *gosym.Violation) string {
	rf := replayFile{Property: prop, Harness: shortHarness(harness), AssertID: v.ID, Msg: v.Msg, Model: v.Model, Chooses: v.Chooses, Params: v.Params, Notes: v.Notes, PathCond: v.PathCond, Stack: v.Stack}
	b, _ := json.MarshalIndent(rf, "", " ")
	h := sha1.Sum(b)
	dir := filepath.Join(verif, "replays")
	os.MkdirAll(dir, 0755)
	path := filepath.Join(dir, fmt.Sprintf("%s-%x.json", prop, h[:5]))
	os.WriteFile(path, b, 0644)
	return path
}

// shortHarness maps "github.com/HobbyOSs/gosk/internal/codegen.VFoo" to the
// registry key "codegen.VFoo".
func shortHarness(full string) string {
	i := strings.LastIndex(full, "/")
	return full[i+1:]
}

func buildReplay(repo, ovroot, scratch string) (string, error) {
	ov := map[string]map[string]string{"Replace": {}}
	filepath.Walk(ovroot, func(p string, info os.FileInfo, err error) error {
		if err == nil && !info.IsDir() && strings.HasSuffix(p, ".go") {
			rel, _ := filepath.Rel(ovroot, p)
			ov["Replace"][filepath.Join(repo, rel)] = p
		}
		return nil
	})
	b, _ := json.Marshal(ov)
	ovf := filepath.Join(scratch, "overlay.json")
	os.WriteFile(ovf, b, 0644)
	bin := filepath.Join(scratch, "replay.test")
	cmd := exec.Command("go", "test", "-c", "-vet=off", "-tags", "verif", "-overlay", ovf, "-o", bin, "./internal/zzverif/")
	cmd.Dir = repo
	cmd.Env = append(os.Environ(), "GOFLAGS=-mod=mod", "GOPROXY=off", "GOSUMDB=off", "GOTOOLCHAIN=local")
	out, err := cmd.CombinedOutput()
	if err != nil {
		return "", fmt.Errorf("%v: %s", err, out)
	}
	// the real command, untouched by the overlay, for harnesses that drive
	// the command line (vrt.RunCLI)
	cmd = exec.Command("go", "build", "-o", filepath.Join(scratch, "gosk"), "./cmd/gosk")
	cmd.Dir = repo
	cmd.Env = append(os.Environ(), "GOFLAGS=-mod=mod", "GOPROXY=off", "GOSUMDB=off", "GOTOOLCHAIN=local")
	if out, err := cmd.CombinedOutput(); err != nil {
		return "", fmt.Errorf("building cmd/gosk: %v: %s", err, out)
	}
	return bin, nil
}

// nativeTmp is the temp directory native harness runs use: it lives inside the
// scratch directory of the replay binary and is removed with it.
func nativeTmp(bin string) string {
	d := filepath.Join(filepath.Dir(bin), "tmp")
	os.MkdirAll(d, 0o755)
	return d
}

// runReplay runs the natively compiled harness under the model and reports
// whether the violation reproduces.
func runReplay(bin, repo, harness, path string, v *gosym.Violation) (bool, string) {
	cmd := exec.Command(bin, "-test.run", "^TestVerifReplay$", "-test.v", "-test.timeout", "120s")
	cmd.Dir = filepath.Join(repo, "internal")
	cmd.Env = append(os.Environ(), "VERIF_MODEL="+path, "VERIF_HARNESS="+shortHarness(harness), "TMPDIR="+nativeTmp(bin), "VERIF_GOSK="+filepath.Join(filepath.Dir(bin), "gosk"))
	out, err := cmd.CombinedOutput()
	code := 0
	if ee, ok := err.(*exec.ExitError); ok {
		code = ee.ExitCode()
	} else if err != nil {
		return false, "cannot run replay binary: " + err.Error()
	}
	s := string(out)
	switch v.ID {
	case "no-panic":
		if (strings.Contains(s, "panic:") || strings.Contains(s, "fatal error:")) && code != 0 && code != 90 && code != 91 {
			return true, "native run panicked"
		}
	case "no-exit":
		if code != 0 && code != 90 && code != 91 && !strings.Contains(s, "panic:") {
			return true, fmt.Sprintf("native run exited with status %d", code)
		}
	case "budget":
		if strings.Contains(s, "test timed out") {
			return true, "native run timed out"
		}
		if strings.Contains(s, "stack overflow") || strings.Contains(s, "goroutine stack exceeds") {
			return true, "native run overflows the stack (unbounded recursion)"
		}
	default:
		if strings.Contains(s, "VERIF-ASSERT-FAIL "+v.ID) {
			return true, "native run fails the same assertion"
		}
	}
	tail := s
	if len(tail) > 600 {
		tail = tail[len(tail)-600:]
	}
	return false, fmt.Sprintf("native exit status %d, output tail: %q", code, tail)
}

// validateAll runs each sampled path natively under its model and compares
// the noted values; returns descriptions of mismatches.
func validateAll(bin, repo, scratch string, vs []*gosym.ValidationSample, par int) []string {
	var mu sync.Mutex
	var bad []string
	sem := make(chan struct{}, par)
	var wg sync.WaitGroup
	for i, v := range vs {
		wg.Add(1)
		sem <- struct{}{}
		go func(i int, v *gosym.ValidationSample) {
			defer wg.Done()
			defer func() { <-sem }()
			rf := replayFile{Harness: shortHarness(v.Harness), Model: v.Model, Chooses: v.Chooses, Params: v.Params}
			b, _ := json.Marshal(rf)
			mf := filepath.Join(scratch, fmt.Sprintf("val%d.json", i))
			os.WriteFile(mf, b, 0644)
			cmd := exec.Command(bin, "-test.run", "^TestVerifReplay$", "-test.v", "-test.timeout", "120s")
			cmd.Dir = filepath.Join(repo, "internal")
			cmd.Env = append(os.Environ(), "VERIF_MODEL="+mf, "VERIF_HARNESS="+rf.Harness, "TMPDIR="+nativeTmp(bin), "VERIF_GOSK="+filepath.Join(filepath.Dir(bin), "gosk"))
			out, _ := cmd.CombinedOutput()
			s := string(out)
			native := map[string]string{}
			for _, line := range strings.Split(s, "\n") {
				if strings.HasPrefix(line, "VERIF-NOTE ") {
					kv := strings.SplitN(strings.TrimPrefix(line, "VERIF-NOTE "), "=", 2)
					if len(kv) == 2 {
						if u, err := strconv.Unquote(kv[1]); err == nil {
							native[kv[0]] = u
						}
					}
				}
			}
			var diffs []string
			if !strings.Contains(s, "VERIF-DONE") {
				tail := s
				if len(tail) > 400 {
					tail = tail[len(tail)-400:]
				}
				diffs = append(diffs, fmt.Sprintf("native run did not complete: %q", tail))
			}
			for k, ev := range v.Notes {
				if strings.Contains(ev, "‹") {
					continue
				}
				if nv, ok := native[k]; !ok || nv != ev {
					diffs = append(diffs, fmt.Sprintf("note %s: engine %q native %q", k, ev, nv))
				}
			}
			if len(diffs) > 0 {
				mu.Lock()
				bad = append(bad, fmt.Sprintf("%s model=%v chooses=%v: %s", v.Harness, v.Model, v.Chooses, strings.Join(diffs, "; ")))
				mu.Unlock()
			}
		}(i, v)
	}
	wg.Wait()
	return bad
}

func runReplayCmd(args []string) int {
	fs := flag.NewFlagSet("replay", flag.ExitOnError)
	repo := fs.String("repo", "/repo", "repository")
	verif := fs.String("verif", "/verif", "verif dir")
	fs.Parse(args)
	if fs.NArg() != 1 {
		fmt.Println("usage: gosym replay <file>")
		return 2
	}
	rpath, _ := filepath.Abs(fs.Arg(0))
	b, err := os.ReadFile(rpath)
	if err != nil {
		fmt.Println(err)
		return 2
	}
	var rf replayFile
	if err := json.Unmarshal(b, &rf); err != nil {
		fmt.Println(err)
		return 2
	}
	scratch, _ := os.MkdirTemp("", "gosym-replay-")
	defer os.RemoveAll(scratch)
	bin, err := buildReplay(*repo, filepath.Join(*verif, "harness", "overlay"), scratch)
	if err != nil {
		fmt.Println(err)
		return 2
	}
	cmd := exec.Command(bin, "-test.run", "^TestVerifReplay$", "-test.v")
	cmd.Dir = filepath.Join(*repo, "internal")
	cmd.Env = append(os.Environ(), "VERIF_MODEL="+rpath, "VERIF_HARNESS="+rf.Harness, "TMPDIR="+nativeTmp(bin), "VERIF_GOSK="+filepath.Join(filepath.Dir(bin), "gosk"))
	out, _ := cmd.CombinedOutput()
	fmt.Printf("replay of %s (%s / %s)\nmodel=%v chooses=%v notes=%v\n--- native output ---\n%s\n", fs.Arg(0), rf.Harness, rf.AssertID, rf.Model, rf.Chooses, rf.Notes, out)
	if strings.Contains(string(out), "VERIF-ASSERT-FAIL") || strings.Contains(string(out), "panic:") {
		fmt.Printf("VIOLATION property=%s replay=%s\n", rf.Property, fs.Arg(0))
		return 1
	}
	return 0
}

// ---- second-solver cross-check of a recorded session ----

type crossResult struct {
	Solver   string
	Queries  int
	Agree    int
	Unknown2 int // second solver answered unknown/timeout where the primary decided
	Disagree []string
	Note     string
	WallS    float64
}

func (c *crossResult) summary() interface{} {
	if c == nil {
		return "not run (quick tier)"
	}
	return map[string]interface{}{"second_solver": c.Solver, "queries_replayed": c.Queries, "agree": c.Agree,
		"second_solver_unknown": c.Unknown2, "disagreements": len(c.Disagree), "note": c.Note, "wall_s": c.WallS}
}

// crossCheck replays worker 0's solver session (every command, in order)
// through the other installed z3 and compares each check-sat answer with the
// one recorded.  sat/unsat disagreements are reported; "unknown" from the
// second solver is counted, not an error (z3 4.8.12 times out on some
// multiplication queries that 5.1.0 decides).
func crossCheck(logPath, primary string) *crossResult {
	second := "z3"
	if primary == "z3" {
		second = "z3-new"
	}
	res := &crossResult{Solver: second}
	bin, err := exec.LookPath(second)
	if err != nil {
		res.Note = "second solver not installed"
		return res
	}
	data, err := os.ReadFile(logPath)
	if err != nil {
		res.Note = "no session log"
		return res
	}
	t0 := time.Now()
	var want []string
	var input bytes.Buffer
	for _, line := range strings.Split(string(data), "\n") {
		switch {
		case strings.HasPrefix(line, "; => "):
			want = append(want, strings.TrimPrefix(line, "; => "))
		case strings.HasPrefix(line, "(get-value"):
			// models are not compared
		case strings.HasPrefix(line, "(set-option :timeout"):
			input.WriteString("(set-option :timeout 20000)\n")
		default:
			input.WriteString(line)
			input.WriteByte('\n')
		}
	}
	cmd := exec.Command(bin, "-in")
	cmd.Stdin = &input
	out, _ := cmd.Output()
	var got []string
	for _, line := range strings.Split(string(out), "\n") {
		line = strings.TrimSpace(line)
		if line == "sat" || line == "unsat" || line == "unknown" || line == "timeout" {
			got = append(got, line)
		}
	}
	res.Queries = len(want)
	if len(got) != len(want) {
		res.Note = fmt.Sprintf("replay produced %d answers for %d queries (session not comparable)", len(got), len(want))
		res.WallS = time.Since(t0).Seconds()
		return res
	}
	for i := range want {
		switch {
		case want[i] == got[i]:
			res.Agree++
		case got[i] == "unknown" || got[i] == "timeout" || want[i] == "unknown" || want[i] == "died":
			res.Unknown2++
		default:
			res.Disagree = append(res.Disagree, fmt.Sprintf("query %d: %s says %s, %s says %s", i, primary, want[i], second, got[i]))
		}
	}
	res.WallS = time.Since(t0).Seconds()
	return res
}
