package main

import (
	"encoding/json"
	"flag"
	"fmt"
	"os"
	"path/filepath"
	"runtime/debug"
	"strings"
	"time"

	"verif/engine/gosym"
)

func overlayFrom(root, repo string) (map[string][]byte, error) {
	ov := map[string][]byte{}
	err := filepath.Walk(root, func(p string, info os.FileInfo, err error) error {
		if err != nil {
			return err
		}
		if info.IsDir() || !strings.HasSuffix(p, ".go") {
			return nil
		}
		rel, _ := filepath.Rel(root, p)
		b, err := os.ReadFile(p)
		if err != nil {
			return err
		}
		ov[filepath.Join(repo, rel)] = b
		return nil
	})
	return ov, err
}

func main() {
	repo := flag.String("repo", "/repo", "repository")
	ovroot := flag.String("overlay-root", "/verif/harness/overlay", "overlay root")
	harness := flag.String("harness", "", "pkgpath.Func")
	trace := flag.Bool("trace", false, "trace calls")
	slog := flag.String("solver-log", "", "solver log")
	flag.Parse()
	debug.SetGCPercent(150)
	debug.SetMemoryLimit(24 << 30)
	if flag.NArg() > 0 && flag.Arg(0) == "check" {
		os.Exit(runCheck(flag.Args()[1:]))
	}
	if flag.NArg() > 0 && flag.Arg(0) == "replay" {
		os.Exit(runReplayCmd(flag.Args()[1:]))
	}
	ov, err := overlayFrom(*ovroot, *repo)
	if err != nil {
		fmt.Println(err)
		os.Exit(2)
	}
	cfg := &gosym.Config{RepoDir: *repo, Overlay: ov, Tags: "verif", Patterns: []string{"./..."}, Trace: *trace, SolverLog: *slog}
	t0 := time.Now()
	prog, err := gosym.Load(cfg)
	if err != nil {
		fmt.Println(err)
		os.Exit(2)
	}
	fmt.Printf("loaded in %.1fs (load %.1f build %.1f)\n", time.Since(t0).Seconds(), prog.LoadS, prog.BuildS)
	fn := prog.FindFunc(*harness)
	if fn == nil {
		fmt.Println("no such harness", *harness)
		os.Exit(2)
	}
	in, err := prog.NewInterp()
	if err != nil {
		fmt.Println(err)
		os.Exit(2)
	}
	defer in.Close()
	t1 := time.Now()
	if err := in.InitPackages(fn.Pkg); err != nil {
		fmt.Println(err)
		os.Exit(2)
	}
	fmt.Printf("init in %.1fs\n", time.Since(t1).Seconds())
	res := in.RunHarness(fn, nil, nil)
	b, _ := json.MarshalIndent(res, "", " ")
	fmt.Println(string(b))
	sb, _ := json.Marshal(in.Stats)
	fmt.Println(string(sb))
}
