package main

const gp = "github.com/HobbyOSs/gosk/"

var properties = map[string]*propSpec{
	"SMOKE": {
		ID:    "SMOKE",
		Quick: tierSpec{Harnesses: []harnessSpec{{Func: gp + "internal/codegen.VSmoke", Reach: []string{"smoke.end"}}}},
	},
	"SMOKEBAD": {
		ID:    "SMOKEBAD",
		Quick: tierSpec{Harnesses: []harnessSpec{{Func: gp + "internal/codegen.VSmokeBad"}}},
	},
}

func init() {
	properties["CONC"] = &propSpec{ID: "CONC", Quick: tierSpec{Harnesses: []harnessSpec{{Func: gp + "internal/zzverif.VConcrete", Reach: []string{"concrete.end"}}}}}
}

func init() {
	properties["SYMMOV"] = &propSpec{ID: "SYMMOV", Quick: tierSpec{Harnesses: []harnessSpec{{Func: gp + "internal/zzverif.VSymMov", Digits: 6, Reach: []string{"symmov.end"}}}}}
}
