package main

const gp = "github.com/HobbyOSs/gosk/"

var properties = map[string]*propSpec{
	"SMOKE": {
		ID:    "SMOKE",
		Quick: tierSpec{Harnesses: []harnessSpec{{Func: gp + "internal/codegen.VSmoke", Reach: []string{"smoke.end"}}}},
	},
	"SMOKEBAD": {
		ID:    "SMOKEBAD",
		Quick: tierSpec{Harnesses: []harnessSpec{{Func: gp + "internal/codegen.VSmokeBad"}}},
	},
}
