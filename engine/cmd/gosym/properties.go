package main

const gp = "github.com/HobbyOSs/gosk/"

var properties = map[string]*propSpec{
	"SMOKE": {
		ID:    "SMOKE",
		Quick: tierSpec{Harnesses: []harnessSpec{{Func: gp + "internal/codegen.VSmoke", Reach: []string{"smoke.end"}}}},
	},
	"SMOKEBAD": {
		ID:    "SMOKEBAD",
		Quick: tierSpec{Harnesses: []harnessSpec{{Func: gp + "internal/codegen.VSmokeBad"}}},
	},
}

func init() {
	properties["CONC"] = &propSpec{ID: "CONC", Quick: tierSpec{Harnesses: []harnessSpec{{Func: gp + "internal/zzverif.VConcrete", Reach: []string{"concrete.end"}}}}}
}

func init() {
	properties["SYMMOV"] = &propSpec{ID: "SYMMOV", Quick: tierSpec{Harnesses: []harnessSpec{{Func: gp + "internal/zzverif.VSymMov", Digits: 6, Reach: []string{"symmov.end"}}}}}
}

func init() {
	properties["C01"] = &propSpec{ID: "C01",
		Bounds: []string{
			"72 no-operand mnemonics (flags, stack-frame, BCD, system, string, PUSHA/PUSHF/IRET families with and without W/D suffix, CBW/CWDE/CWD/CDQ) x both modes: decoded name, operand size fixed by the name, no stray 66h, label behind at the real offset",
			"modes 16 and 32; 38 instruction forms (MOV r/r r/imm r/m m/r m/imm Sreg<->r16 Sreg<->m16 CRn acc-moffs; ADD SUB CMP AND OR XOR r/r r/imm r/m m/r m/imm; NOT; SHL SHR SAR; IMUL; IN OUT; PUSH POP reg Sreg imm mem; INT; RET; LGDT) x widths 8/16/32",
			"immediates: signed 64-bit solver variables restricted to decimal literals of 1..10 digits (quick: digit classes 1,3,5,10); ports/counts/INT numbers 0..255",
			"registers: quick = one position sweeps all 8 registers against one fixed partner, immediate forms use 4 registers incl. the accumulator; thorough = all 8 in every position",
			"memory operands: one representative shape per addressing class (C02 covers the address itself)",
		},
		OutsideBounds: []string{"literals of more than 10 digits", "hex and character literals as symbolic values", "segment overrides, SHORT/NEAR/FAR keywords on non-branches", "mnemonics not listed (their silent mis-assembly is C07's subject)", "quick tier: the decimal-text-to-number step of the grammar action for literals (thorough tier includes it)"},
		Quick: tierSpec{Harnesses: []harnessSpec{
			{Func: gp + "internal/zzverif.VC01", Discover: 3, Reach: []string{"c01.decode.accepted"}},
			{Func: gp + "internal/zzverif.VC01NoOp", Discover: 2, Reach: []string{"c01n.accepted"}},
		}},
		Thorough: tierSpec{Harnesses: []harnessSpec{
			{Func: gp + "internal/zzverif.VC01", Discover: 4, Params: map[string]int{"allregs": 1}, Reach: []string{"c01.decode.accepted"}},
			{Func: gp + "internal/zzverif.VC01NoOp", Discover: 2, Reach: []string{"c01n.accepted"}},
		}},
	}
}

func init() {
	properties["C02"] = &propSpec{ID: "C02",
		Quick: tierSpec{Harnesses: []harnessSpec{
			{Func: gp + "internal/codegen.VC02K", Discover: 3, Reach: []string{"c02k.accepted"}},
			{Func: gp + "internal/zzverif.VC02Shapes", Discover: 4, Reach: []string{"c02.ea.accepted"}},
			{Func: gp + "internal/zzverif.VC02Carriers", Discover: 3, Reach: []string{"c02.ea.accepted"}},
			{Func: gp + "internal/zzverif.VC02Label", Discover: 4, Reach: []string{"c02l.accepted"}},
		}},
		Thorough: tierSpec{Harnesses: []harnessSpec{
			{Func: gp + "internal/codegen.VC02K", Discover: 3, Reach: []string{"c02k.accepted"}},
			{Func: gp + "internal/zzverif.VC02Shapes", Discover: 5, Params: map[string]int{"allregs": 1}, Reach: []string{"c02.ea.accepted"}},
			{Func: gp + "internal/zzverif.VC02Carriers", Discover: 4, Params: map[string]int{"allregs": 1}, Reach: []string{"c02.ea.accepted"}},
			{Func: gp + "internal/zzverif.VC02Label", Discover: 4, Reach: []string{"c02l.accepted"}},
		}},
		Bounds: []string{
			"kernel level: calculateModRM on every 32-bit base (8 or none) x index (7 or none) x scale {1,2,4,8} and every 16-bit shape, both modes, reg field 0..7, displacement over all of int64",
			"source level: shapes written as text ([base+index*scale+d], [base-m]) through both PEG parsers' structure, pass 1, codegen; displacement literals of 1..10 digits (quick: digit classes 1,3,5,10); carriers MOV load/store/store-imm, ALU load/store/imm, NOT, SHL, PUSH, POP, LGDT, accumulator forms",
			"quick tier sweeps each of base / index / scale against fixed values of the others and uses one register width; thorough tier takes the full cross product and widths 8/16/32",
			"label addresses: [lbl] with lbl defined before or after the statement, 13 carriers x widths 8/16/32 x both modes, origin a solver variable over 0..0xff00 (16-bit) / 0..0x7fff0000 (32-bit)",
		},
		OutsideBounds: []string{"segment overrides", "labels combined with registers or arithmetic inside the brackets ([SI+lbl], [lbl+2]: rejected with a diagnostic by the pinned tree)", "displacements written as hex literals or expressions (C06)", "16-bit addressing registers in 32-bit mode beyond the listed known finding"},
	}
}

func init() {
	properties["C18"] = &propSpec{ID: "C18",
		Quick:    tierSpec{Harnesses: []harnessSpec{{Func: gp + "internal/zzverif.VC18", Discover: 3, Reach: []string{"c18.accepted"}}}},
		Thorough: tierSpec{Harnesses: []harnessSpec{{Func: gp + "internal/zzverif.VC18", Discover: 3, Params: map[string]int{"alldigits": 1}, Reach: []string{"c18.accepted"}}}},
		Bounds: []string{
			"ADD OR AND SUB XOR CMP x every register of width 8/16/32 and memory destinations [BX], [EBX], [abs] with BYTE/WORD/DWORD x immediates of 1..10 decimal digits (quick: classes 1,3,5,10), both modes",
			"MOV accumulator <-> absolute address (0..65535), MOV r,imm for every register, PUSH/POP of every 16/32-bit register, PUSH imm",
			"asserted: emitted length <= minlen(statement, mode), minlen being a lenient specification of the shortest valid encoding (imm8 sign-extended form demanded only when the immediate as written lies in [-128,127]; accumulator short form; moffs; B0+r/B8+r; 50+r/58+r; 6A ib)",
		},
		OutsideBounds: []string{"memory destinations with displacements or SIB", "immediates whose value modulo the operand width would fit imm8 although the written value does not (e.g. ADD AX,0xFFFF): no length is demanded there", "that the bytes are a correct encoding at all (C01)"},
	}
}

func init() {
	properties["C04"] = &propSpec{ID: "C04",
		Bounds: []string{
			"numeric targets: all 31 jump mnemonics + CALL x modes 16/32 x origin and target symbolic over [0,2^16) resp. [0,2^32) (decimal digit classes 1,3,5,10; thorough: all)",
			"label targets: forward/backward x gap in {0,1,2,3,120..135} x with/without a further label after the branch x origin symbolic in [0,0xf000]; quick: JMP CALL JE JNGE, thorough: all mnemonics",
			"far JMP DWORD sel:off with sel in [0,0xffff], off in [0,2^32)",
		},
		OutsideBounds: []string{"label distances beyond 135 bytes other than through numeric targets", "SHORT/NEAR/FAR keywords on relative branches", "indirect JMP/CALL"},
		Quick: tierSpec{Harnesses: []harnessSpec{
			{Func: gp + "internal/zzverif.VC04Num", Discover: 2, Digits: 10, Reach: []string{"c04.accepted"}},
			{Func: gp + "internal/zzverif.VC04Label", Discover: 3, Digits: 5, Reach: []string{"c04l.accepted"}},
			{Func: gp + "internal/zzverif.VC04Far", Discover: 1, Digits: 10, Reach: []string{"c04f.accepted"}},
		}},
		Thorough: tierSpec{Harnesses: []harnessSpec{
			{Func: gp + "internal/zzverif.VC04Num", Discover: 2, Digits: 10, Params: map[string]int{"alldigits": 1}, Reach: []string{"c04.accepted"}},
			{Func: gp + "internal/zzverif.VC04Label", Discover: 3, Digits: 5, Params: map[string]int{"allregs": 1}, Reach: []string{"c04l.accepted"}},
			{Func: gp + "internal/zzverif.VC04Far", Discover: 1, Digits: 10, Reach: []string{"c04f.accepted"}},
		}},
	}
}

func init() {
	properties["C03"] = &propSpec{ID: "C03",
		Quick: tierSpec{Harnesses: []harnessSpec{
			{Func: gp + "internal/zzverif.VC03", Discover: 3, Reach: []string{"c03.accepted"}},
			{Func: gp + "internal/zzverif.VC03Org", Discover: 2, Digits: 5, Reach: []string{"c03o.accepted"}},
		}},
		Thorough: tierSpec{Harnesses: []harnessSpec{
			{Func: gp + "internal/zzverif.VC03", Discover: 4, Params: map[string]int{"alldigits": 1}, Reach: []string{"c03.accepted"}},
			{Func: gp + "internal/zzverif.VC03Org", Discover: 2, Digits: 5, Reach: []string{"c03o.accepted"}},
		}},
	}
}

func init() {
	hs := func(long int) []harnessSpec {
		return []harnessSpec{
			{Func: gp + "internal/zzverif.VC05Data", Discover: 3, Params: map[string]int{"long": long, "alldigits": long}, Reach: []string{"c05.accepted"}},
			{Func: gp + "internal/zzverif.VC05Str", Discover: 2, Reach: []string{"c05s.accepted"}},
			{Func: gp + "internal/zzverif.VC05Resb", Discover: 2, Reach: []string{"c05r.accepted"}},
			{Func: gp + "internal/zzverif.VC05Align", Discover: 1, Reach: []string{"c05a.accepted"}},
			{Func: gp + "internal/zzverif.VC05Silent", Discover: 1, Reach: []string{"c05e.accepted"}},
			{Func: gp + "internal/zzverif.VC05Label", Discover: 2, Digits: 8, Reach: []string{"c05l.accepted"}},
		}
	}
	properties["C05"] = &propSpec{ID: "C05", Quick: tierSpec{Harnesses: hs(0)}, Thorough: tierSpec{Harnesses: hs(1)}}
}

func init() {
	properties["C06"] = &propSpec{ID: "C06",
		Quick: tierSpec{Harnesses: []harnessSpec{
			{Func: gp + "internal/zzverif.VC06", Discover: 2, Reach: []string{"c06.accepted"}},
			{Func: gp + "internal/zzverif.VC06Lit", Discover: 1, Reach: []string{"c06l.accepted"}},
		}},
		Thorough: tierSpec{Harnesses: []harnessSpec{
			{Func: gp + "internal/zzverif.VC06", Discover: 2, Reach: []string{"c06.accepted"}},
			{Func: gp + "internal/zzverif.VC06Lit", Discover: 1, Params: map[string]int{"alldigits": 1}, Reach: []string{"c06l.accepted"}},
		}},
	}
}

func init() {
	properties["C11"] = &propSpec{ID: "C11",
		Quick:    tierSpec{Harnesses: []harnessSpec{{Func: gp + "internal/zzverif.VC11", Discover: 2, Reach: []string{"c11.accepted"}}}},
		Thorough: tierSpec{Harnesses: []harnessSpec{{Func: gp + "internal/zzverif.VC11", Discover: 2, Reach: []string{"c11.accepted"}}}},
	}
}

func init() {
	properties["C10"] = &propSpec{ID: "C10",
		Quick:    tierSpec{Harnesses: []harnessSpec{{Func: gp + "internal/zzverif.VC10", Discover: 2, Digits: 5, Reach: []string{"c10.accepted"}}}},
		Thorough: tierSpec{Harnesses: []harnessSpec{{Func: gp + "internal/zzverif.VC10", Discover: 2, MapPerms: true, Reach: []string{"c10.accepted"}}}},
	}
}

func init() {
	properties["C07"] = &propSpec{ID: "C07",
		Quick: tierSpec{Harnesses: []harnessSpec{
			{Func: gp + "internal/zzverif.VC07Invalid", Discover: 1, Reach: []string{"c07i.ran"}},
			{Func: gp + "internal/zzverif.VC07All", Discover: 1, Reach: []string{"c07a.diagnosed"}},
			{Func: gp + "internal/zzverif.VC07Range", Discover: 2, Digits: 5, Reach: []string{"c07r.ran"}},
		}},
		Thorough: tierSpec{Harnesses: []harnessSpec{
			{Func: gp + "internal/zzverif.VC07Invalid", Discover: 1, Reach: []string{"c07i.ran"}},
			{Func: gp + "internal/zzverif.VC07All", Discover: 1, Reach: []string{"c07a.diagnosed"}},
			{Func: gp + "internal/zzverif.VC07Range", Discover: 2, Digits: 5, Reach: []string{"c07r.ran"}},
		}},
	}
}

func init() {
	properties["C08"] = &propSpec{ID: "C08",
		Quick:    tierSpec{Harnesses: []harnessSpec{{Func: gp + "internal/zzverif.VC08", Discover: 3, Reach: []string{"c08.accepted"}}}},
		Thorough: tierSpec{Harnesses: []harnessSpec{{Func: gp + "internal/zzverif.VC08", Discover: 3, Reach: []string{"c08.accepted"}}}},
	}
	properties["C09"] = &propSpec{ID: "C09",
		Quick:    tierSpec{Harnesses: []harnessSpec{{Func: gp + "internal/zzverif.VC09", Discover: 2, Reach: []string{"c09.accepted"}}}},
		Thorough: tierSpec{Harnesses: []harnessSpec{{Func: gp + "internal/zzverif.VC09", Discover: 2, Reach: []string{"c09.accepted"}}}},
	}
}

func init() {
	properties["C14"] = &propSpec{ID: "C14",
		Quick: tierSpec{Harnesses: []harnessSpec{
			{Func: gp + "internal/zzverif.VC14", Discover: 2, Reach: []string{"c14.accepted"}},
			{Func: gp + "internal/zzverif.VC14Sym", Discover: 3, Digits: 3, Reach: []string{"c14s.accepted"}},
			{Func: gp + "internal/zzverif.VC14Equ", Discover: 2, Reach: []string{"c14e.accepted"}},
		}},
		Thorough: tierSpec{Harnesses: []harnessSpec{
			{Func: gp + "internal/zzverif.VC14", Discover: 2, Params: map[string]int{"allregs": 1}, Reach: []string{"c14.accepted"}},
			{Func: gp + "internal/zzverif.VC14Sym", Discover: 3, Digits: 3, Params: map[string]int{"allregs": 1}, Reach: []string{"c14s.accepted"}},
			{Func: gp + "internal/zzverif.VC14Equ", Discover: 2, Reach: []string{"c14e.accepted"}},
		}},
	}
}

func init() {
	properties["C16"] = &propSpec{ID: "C16",
		Quick:    tierSpec{Harnesses: []harnessSpec{{Func: gp + "internal/zzverif.VC16", Discover: 2, Digits: 6, Reach: []string{"c16.accepted"}}}},
		Thorough: tierSpec{Harnesses: []harnessSpec{{Func: gp + "internal/zzverif.VC16", Discover: 2, Digits: 6, Reach: []string{"c16.accepted"}}}},
	}
}

func init() {
	properties["C17"] = &propSpec{ID: "C17",
		Quick: tierSpec{Harnesses: []harnessSpec{
			{Func: gp + "internal/zzverif.VC17", Discover: 3, Digits: 5, Reach: []string{"c17.accepted"}},
			{Func: gp + "internal/zzverif.VC17Decode", Discover: 3, Reach: []string{"c17d.accepted"}},
		}},
		Thorough: tierSpec{Harnesses: []harnessSpec{
			{Func: gp + "internal/zzverif.VC17", Discover: 3, Digits: 5, Reach: []string{"c17.accepted"}},
			{Func: gp + "internal/zzverif.VC17Decode", Discover: 3, Params: map[string]int{"alldigits": 1}, Reach: []string{"c17d.accepted"}},
		}},
	}
}

func init() {
	properties["C15"] = &propSpec{ID: "C15",
		Quick: tierSpec{Harnesses: []harnessSpec{
			{Func: gp + "internal/zzverif.VC15", Discover: 1, Reach: []string{"c15.accepted"}},
			{Func: gp + "internal/zzverif.VC15Coff", Discover: 2, Reach: []string{"c15.coff.accepted"}},
			{Func: gp + "internal/zzverif.VC15Sym", Discover: 3, Reach: []string{"c15.sym.accepted"}},
		}},
		Thorough: tierSpec{Harnesses: []harnessSpec{
			{Func: gp + "internal/zzverif.VC15", Discover: 2, Reach: []string{"c15.accepted"}},
			{Func: gp + "internal/zzverif.VC15Coff", Discover: 2, Reach: []string{"c15.coff.accepted"}},
			{Func: gp + "internal/zzverif.VC15Sym", Discover: 4, Params: map[string]int{"two": 1}, Reach: []string{"c15.sym.accepted"}},
		}},
	}
}

func init() {
	properties["C12"] = &propSpec{ID: "C12",
		Quick:    tierSpec{Harnesses: []harnessSpec{{Func: gp + "internal/zzverif.VC12", Discover: 3, Reach: []string{"c12.accepted"}}}},
		Thorough: tierSpec{Harnesses: []harnessSpec{{Func: gp + "internal/zzverif.VC12", Discover: 3, Params: map[string]int{"full": 1}, Reach: []string{"c12.accepted"}}}},
	}
}

func init() {
	hs := []harnessSpec{
		{Func: gp + "internal/zzverif.VC13Stmt", Discover: 1, Reach: []string{"c13.ran"}},
		{Func: gp + "internal/zzverif.VC13Sym", Discover: 1, Digits: 5, Reach: []string{"c13s.ran"}},
		{Func: gp + "internal/zzverif.VC13Byte", Discover: 2, Reach: []string{"c13b.ran"}},
	}
	ht := append([]harnessSpec{}, hs...)
	ht[2] = harnessSpec{Func: gp + "internal/zzverif.VC13Byte", Discover: 2, Params: map[string]int{"allpos": 1}, Reach: []string{"c13b.ran"}}
	properties["C13"] = &propSpec{ID: "C13", Quick: tierSpec{Harnesses: hs}, Thorough: tierSpec{Harnesses: ht}}
}

func init() {
	properties["DBG"] = &propSpec{ID: "DBG", Quick: tierSpec{Harnesses: []harnessSpec{{Func: gp + "internal/zzverif.VDbg", Discover: 1}}}}
}

func init() {
	z := gp + "internal/zzverif."
	properties["C19"] = &propSpec{ID: "C19", CLI: true,
		Bounds: []string{
			"argument vectors of length 0..4 over {existing valid source, missing file, directory, fresh output path, existing output file holding a longer valid program, path whose parent directory is missing}: all 1555 vectors; no flags",
			"syntax errors: 6 malformed lines x 0..3 well-formed lines before (6 rotations) x 0..1 after x LF/CRLF x output file present/absent",
			"comment bytes: every byte sequence of length 1..2 (quick) / 1..3 (thorough) without LF/CR, as 11 byte classes per position whose union is all 254 values, in a trailing ';' comment, a '#' comment line and a comment at end of file without newline; thorough also 2 arbitrary bytes placed 4089..4096 bytes into a comment (decoder buffer boundary)",
			"CLI vs API: 4 programs (16-bit binary, WCOFF object, ORG+label arithmetic, EQU) with two numbers a in 0..65535 and b in 0..255 as solver variables written in decimal; output file pre-filled with 2000 stale bytes",
		},
		OutsideBounds: []string{"flags -v -d --help and unknown flags (flag package behaviour, not in the property)", "permission-denied failures (sandbox runs as root)", "separation of stdout and stderr (the native replay reads both together)", "non-comment Shift_JIS text (string literals)", "comment byte sequences longer than 3 (the decoder carries at most one lead byte of state)", "sources longer than ~4.1 KB"},
		Assumptions: []string{
			"github.com/comail/colog is stubbed: it only filters/formats log lines, which the engine records unformatted",
			"reads of golang.org/x/text's jis0208 table at a symbolic index are abstracted to the value intervals of the table (the index-to-value relation is dropped; sound for 'holds' verdicts)",
			"os.Stat / ReadFile / OpenFile / WriteFile act on an in-memory tree with directories; a native run of the same model against the real binary on the real file system is compared on every sampled path",
		},
		Quick: tierSpec{Harnesses: []harnessSpec{
			{Func: z + "VC19Smoke", Reach: []string{"c19.smoke.end"}},
			{Func: z + "VC19Args", Discover: 3, Reach: []string{"c19.args.end"}},
			{Func: z + "VC19ParseErr", Discover: 3, Reach: []string{"c19.parse.end"}},
			{Func: z + "VC19Charset", Discover: 4, Params: map[string]int{"maxbytes": 2}, Reach: []string{"c19.charset.end"}},
			{Func: z + "VC19Equiv", Discover: 3, Digits: 5, Reach: []string{"c19.equiv.end"}},
		}},
		Thorough: tierSpec{Harnesses: []harnessSpec{
			{Func: z + "VC19Smoke", Reach: []string{"c19.smoke.end"}},
			{Func: z + "VC19Args", Discover: 3, Reach: []string{"c19.args.end"}},
			{Func: z + "VC19ParseErr", Discover: 3, Reach: []string{"c19.parse.end"}},
			{Func: z + "VC19Charset", Discover: 5, Params: map[string]int{"maxbytes": 3}, Reach: []string{"c19.charset.end"}},
			{Func: z + "VC19Chunk", Discover: 3, Reach: []string{"c19.chunk.end"}},
			{Func: z + "VC19Equiv", Discover: 3, Digits: 5, Reach: []string{"c19.equiv.end"}},
		}},
	}
}
