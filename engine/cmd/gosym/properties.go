package main

const gp = "github.com/HobbyOSs/gosk/"

var properties = map[string]*propSpec{
	"SMOKE": {
		ID:    "SMOKE",
		Quick: tierSpec{Harnesses: []harnessSpec{{Func: gp + "internal/codegen.VSmoke", Reach: []string{"smoke.end"}}}},
	},
	"SMOKEBAD": {
		ID:    "SMOKEBAD",
		Quick: tierSpec{Harnesses: []harnessSpec{{Func: gp + "internal/codegen.VSmokeBad"}}},
	},
}

func init() {
	properties["CONC"] = &propSpec{ID: "CONC", Quick: tierSpec{Harnesses: []harnessSpec{{Func: gp + "internal/zzverif.VConcrete", Reach: []string{"concrete.end"}}}}}
}

func init() {
	properties["SYMMOV"] = &propSpec{ID: "SYMMOV", Quick: tierSpec{Harnesses: []harnessSpec{{Func: gp + "internal/zzverif.VSymMov", Digits: 6, Reach: []string{"symmov.end"}}}}}
}

func init() {
	properties["C01"] = &propSpec{ID: "C01",
		Quick:    tierSpec{Harnesses: []harnessSpec{{Func: gp + "internal/zzverif.VC01", Discover: 3, Reach: []string{"c01.decode.accepted"}}}},
		Thorough: tierSpec{Harnesses: []harnessSpec{{Func: gp + "internal/zzverif.VC01", Discover: 3, Params: map[string]int{"alldigits": 1, "allregs": 1}, Reach: []string{"c01.decode.accepted"}}}},
	}
}
