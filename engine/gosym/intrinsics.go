package gosym

// Library boundary: models and native bridges.  An intrinsic returns
// (result, true) when it handled the call; (nil, false) falls back to the
// function's SSA body.

import (
	"fmt"
	"go/types"
	"os"
	"regexp"
	"strconv"
	"strings"
	"unicode"
	"unicode/utf8"

	"golang.org/x/tools/go/ssa"
)

type intrinsicFn func(fr *frame, args []value) (value, bool)

var intrinsics = map[string]intrinsicFn{}

func lookupIntrinsic(fn *ssa.Function, name string) intrinsicFn {
	if f, ok := intrinsics[name]; ok {
		return f
	}
	if i := strings.LastIndex(name, "/zzverif/vrt."); i >= 0 {
		if f, ok := vrtIntrinsics[name[i+len("/zzverif/vrt."):]]; ok {
			return f
		}
	}
	// the colour-logging front end installed by the command line is a stub:
	// log text is recorded by the log model whatever its level and format
	if strings.HasPrefix(name, "github.com/comail/colog.") && fn.Signature.Results().Len() == 0 {
		return noop
	}
	// generic instantiations: strip type arguments
	if i := strings.Index(name, "["); i >= 0 {
		if f, ok := intrinsics[name[:i]]; ok {
			return f
		}
	}
	return nil
}

func isConcreteStr(v value) (string, bool) {
	s, ok := v.(string)
	return s, ok
}

func allConcrete(args []value) bool {
	for _, a := range args {
		switch a := a.(type) {
		case symv, *symString:
			return false
		case []value:
			for _, e := range a {
				switch e.(type) {
				case symv, *symString:
					return false
				}
			}
		}
	}
	return true
}

func strSliceToValue(ss []string) value {
	if ss == nil {
		return []value(nil)
	}
	out := make([]value, len(ss))
	for i, s := range ss {
		out[i] = s
	}
	return out
}

func valueToStrSlice(v value) ([]string, bool) {
	sl := v.([]value)
	out := make([]string, len(sl))
	for i, e := range sl {
		s, ok := e.(string)
		if !ok {
			return nil, false
		}
		out[i] = s
	}
	return out, true
}

func bytesOf(v value) ([]byte, bool) {
	sl, ok := v.([]value)
	if !ok {
		return nil, false
	}
	out := make([]byte, len(sl))
	for i, e := range sl {
		b, ok := e.(uint8)
		if !ok {
			return nil, false
		}
		out[i] = b
	}
	return out, true
}

func bytesToValue(b []byte) []value {
	out := make([]value, len(b))
	for i, c := range b {
		out[i] = c
	}
	return out
}

// mkError builds an error value of dynamic type *errors.errorString.
func (in *Interp) mkError(msg value) value {
	cell := new(value)
	*cell = structure{msg}
	return iface{t: in.errorStringPtr, v: cell}
}

func nilError() value { return iface{} }

func str1(f func(string) string) intrinsicFn {
	return func(fr *frame, args []value) (value, bool) {
		if s, ok := args[0].(string); ok {
			return f(s), true
		}
		return nil, false
	}
}

func str2bool(f func(a, b string) bool) intrinsicFn {
	return func(fr *frame, args []value) (value, bool) {
		a, ok1 := args[0].(string)
		b, ok2 := args[1].(string)
		if ok1 && ok2 {
			return f(a, b), true
		}
		return nil, false
	}
}

func str2str(f func(a, b string) string) intrinsicFn {
	return func(fr *frame, args []value) (value, bool) {
		a, ok1 := args[0].(string)
		b, ok2 := args[1].(string)
		if ok1 && ok2 {
			return f(a, b), true
		}
		return nil, false
	}
}

func str2int(f func(a, b string) int) intrinsicFn {
	return func(fr *frame, args []value) (value, bool) {
		a, ok1 := args[0].(string)
		b, ok2 := args[1].(string)
		if ok1 && ok2 {
			return f(a, b), true
		}
		return nil, false
	}
}

func noop(fr *frame, args []value) (value, bool) { return nil, true }

func init() {
	I := intrinsics
	// ---- strings: native fast paths on concrete arguments ----
	I["strings.TrimSpace"] = str1(strings.TrimSpace)
	I["strings.ToUpper"] = str1(strings.ToUpper)
	I["strings.ToLower"] = str1(strings.ToLower)
	I["strings.Title"] = str1(strings.Title)
	I["strings.HasPrefix"] = str2bool(strings.HasPrefix)
	I["strings.HasSuffix"] = str2bool(strings.HasSuffix)
	I["strings.Contains"] = str2bool(strings.Contains)
	I["strings.EqualFold"] = str2bool(strings.EqualFold)
	I["strings.ContainsAny"] = str2bool(strings.ContainsAny)
	I["strings.TrimPrefix"] = str2str(strings.TrimPrefix)
	I["strings.TrimSuffix"] = str2str(strings.TrimSuffix)
	I["strings.Trim"] = str2str(strings.Trim)
	I["strings.TrimLeft"] = str2str(strings.TrimLeft)
	I["strings.TrimRight"] = str2str(strings.TrimRight)
	I["strings.Index"] = str2int(strings.Index)
	I["strings.LastIndex"] = str2int(strings.LastIndex)
	I["strings.Count"] = str2int(strings.Count)
	I["strings.Compare"] = str2int(strings.Compare)
	I["strings.IndexAny"] = str2int(strings.IndexAny)
	I["strings.Split"] = func(fr *frame, args []value) (value, bool) {
		a, ok1 := args[0].(string)
		b, ok2 := args[1].(string)
		if ok1 && ok2 {
			return strSliceToValue(strings.Split(a, b)), true
		}
		return nil, false
	}
	I["strings.SplitN"] = func(fr *frame, args []value) (value, bool) {
		a, ok1 := args[0].(string)
		b, ok2 := args[1].(string)
		n, ok3 := args[2].(int)
		if ok1 && ok2 && ok3 {
			return strSliceToValue(strings.SplitN(a, b, n)), true
		}
		return nil, false
	}
	I["strings.Fields"] = func(fr *frame, args []value) (value, bool) {
		if a, ok := args[0].(string); ok {
			return strSliceToValue(strings.Fields(a)), true
		}
		return nil, false
	}
	I["strings.Join"] = func(fr *frame, args []value) (value, bool) {
		sep, ok := args[1].(string)
		if !ok {
			return nil, false
		}
		if ss, ok := valueToStrSlice(args[0]); ok {
			return strings.Join(ss, sep), true
		}
		// symbolic elements: concatenate
		var acc value = ""
		for i, e := range args[0].([]value) {
			if i > 0 {
				acc = concat(acc, sep)
			}
			acc = concat(acc, e)
		}
		return acc, true
	}
	I["strings.Repeat"] = func(fr *frame, args []value) (value, bool) {
		a, ok1 := args[0].(string)
		n, ok2 := args[1].(int)
		if ok1 && ok2 && n >= 0 && n*len(a) < 1<<24 {
			return strings.Repeat(a, n), true
		}
		return nil, false
	}
	I["strings.Replace"] = func(fr *frame, args []value) (value, bool) {
		a, ok1 := args[0].(string)
		b, ok2 := args[1].(string)
		c, ok3 := args[2].(string)
		n, ok4 := args[3].(int)
		if ok1 && ok2 && ok3 && ok4 {
			return strings.Replace(a, b, c, n), true
		}
		return nil, false
	}
	I["strings.ReplaceAll"] = func(fr *frame, args []value) (value, bool) {
		a, ok1 := args[0].(string)
		b, ok2 := args[1].(string)
		c, ok3 := args[2].(string)
		if ok1 && ok2 && ok3 {
			return strings.ReplaceAll(a, b, c), true
		}
		return nil, false
	}
	I["strings.IndexByte"] = func(fr *frame, args []value) (value, bool) {
		return fr.indexByte(strBytes(args[0]), args[1]), true
	}
	I["strings.IndexRune"] = func(fr *frame, args []value) (value, bool) {
		a, ok1 := args[0].(string)
		r, ok2 := args[1].(int32)
		if ok1 && ok2 {
			return strings.IndexRune(a, r), true
		}
		return nil, false
	}
	I["(*strings.Builder).copyCheck"] = noop
	I["(*strings.Builder).String"] = func(fr *frame, args []value) (value, bool) {
		p := args[0].(*value)
		buf := (*p).(structure)[1].([]value)
		cp := make([]value, len(buf))
		copy(cp, buf)
		return normStr(cp), true
	}
	I["internal/bytealg.IndexByteString"] = func(fr *frame, args []value) (value, bool) {
		return fr.indexByte(strBytes(args[0]), args[1]), true
	}
	I["internal/bytealg.IndexByte"] = func(fr *frame, args []value) (value, bool) {
		return fr.indexByte(args[0].([]value), args[1]), true
	}
	I["internal/bytealg.CountString"] = func(fr *frame, args []value) (value, bool) {
		n := 0
		for _, e := range strBytes(args[0]) {
			if fr.byteEq(e, args[1]) {
				n++
			}
		}
		return n, true
	}
	I["internal/bytealg.Count"] = func(fr *frame, args []value) (value, bool) {
		n := 0
		for _, e := range args[0].([]value) {
			if fr.byteEq(e, args[1]) {
				n++
			}
		}
		return n, true
	}
	I["internal/bytealg.Equal"] = func(fr *frame, args []value) (value, bool) {
		a, b := args[0].([]value), args[1].([]value)
		if len(a) != len(b) {
			return false, true
		}
		for i := range a {
			if !fr.byteEq(a[i], b[i]) {
				return false, true
			}
		}
		return true, true
	}
	I["bytes.Equal"] = I["internal/bytealg.Equal"]
	I["internal/bytealg.MakeNoZero"] = func(fr *frame, args []value) (value, bool) {
		n := fr.concreteInt(args[0])
		sl := make([]value, n)
		for i := range sl {
			sl[i] = uint8(0)
		}
		return sl, true
	}
	I["internal/bytealg.IndexString"] = func(fr *frame, args []value) (value, bool) {
		return fr.indexSub(strBytes(args[0]), strBytes(args[1])), true
	}
	I["internal/bytealg.Index"] = func(fr *frame, args []value) (value, bool) {
		return fr.indexSub(args[0].([]value), args[1].([]value)), true
	}
	I["internal/stringslite.Index"] = I["internal/bytealg.IndexString"]
	I["internal/stringslite.IndexByte"] = I["internal/bytealg.IndexByteString"]
	I["internal/abi.NoEscape"] = func(fr *frame, args []value) (value, bool) { return args[0], true }
	I["internal/abi.Escape"] = func(fr *frame, args []value) (value, bool) { return args[0], true }
	I["internal/race.Enabled"] = func(fr *frame, args []value) (value, bool) { return false, true }

	// ---- strconv ----
	I["strconv.Itoa"] = func(fr *frame, args []value) (value, bool) {
		switch a := args[0].(type) {
		case int:
			return strconv.Itoa(a), true
		case symv:
			return fr.formatInt(a), true
		}
		return nil, false
	}
	I["strconv.FormatInt"] = func(fr *frame, args []value) (value, bool) {
		base, ok := args[1].(int)
		if !ok {
			return nil, false
		}
		switch a := args[0].(type) {
		case int64:
			return strconv.FormatInt(a, base), true
		case symv:
			if base == 10 {
				return fr.formatInt(a), true
			}
			inconclusive("FormatInt of symbolic value in base %d", base)
		}
		return nil, false
	}
	I["strconv.FormatUint"] = func(fr *frame, args []value) (value, bool) {
		base, ok := args[1].(int)
		if !ok {
			return nil, false
		}
		switch a := args[0].(type) {
		case uint64:
			return strconv.FormatUint(a, base), true
		case symv:
			if base == 10 {
				return fr.formatInt(a), true
			}
			inconclusive("FormatUint of symbolic value in base %d", base)
		}
		return nil, false
	}
	I["strconv.Atoi"] = func(fr *frame, args []value) (value, bool) {
		switch s := args[0].(type) {
		case string:
			n, err := strconv.Atoi(s)
			if err != nil {
				return tuple{n, fr.i.mkError("strconv.Atoi: parsing " + strconv.Quote(s) + ": " + errTail(err))}, true
			}
			return tuple{n, nilError()}, true
		case *symString:
			return fr.parseIntSym(s, 10, 0, "Atoi", types.Int), true
		}
		return nil, false
	}
	I["strconv.ParseInt"] = func(fr *frame, args []value) (value, bool) {
		base, ok1 := args[1].(int)
		bits, ok2 := args[2].(int)
		if !ok1 || !ok2 {
			return nil, false
		}
		switch s := args[0].(type) {
		case string:
			n, err := strconv.ParseInt(s, base, bits)
			if err != nil {
				return tuple{n, fr.i.mkError("strconv.ParseInt: parsing " + strconv.Quote(s) + ": " + errTail(err))}, true
			}
			return tuple{n, nilError()}, true
		case *symString:
			return fr.parseIntSym(s, base, bits, "ParseInt", types.Int64), true
		}
		return nil, false
	}
	I["strconv.ParseUint"] = func(fr *frame, args []value) (value, bool) {
		base, ok1 := args[1].(int)
		bits, ok2 := args[2].(int)
		if !ok1 || !ok2 {
			return nil, false
		}
		switch s := args[0].(type) {
		case string:
			n, err := strconv.ParseUint(s, base, bits)
			if err != nil {
				return tuple{n, fr.i.mkError("strconv.ParseUint: parsing " + strconv.Quote(s) + ": " + errTail(err))}, true
			}
			return tuple{n, nilError()}, true
		case *symString:
			return fr.parseIntSym(s, base, bits, "ParseUint", types.Uint64), true
		}
		return nil, false
	}
	I["strconv.Quote"] = str1(strconv.Quote)
	I["strconv.Unquote"] = func(fr *frame, args []value) (value, bool) {
		if s, ok := args[0].(string); ok {
			r, err := strconv.Unquote(s)
			if err != nil {
				return tuple{r, fr.i.mkError("invalid syntax")}, true
			}
			return tuple{r, nilError()}, true
		}
		return nil, false
	}

	// ---- unicode / utf8 ----
	// a symbolic first byte that may be non-ASCII: no shortcut, the real
	// utf8.DecodeRune body is interpreted (forks by sequence class)
	I["unicode/utf8.DecodeRune"] = func(fr *frame, args []value) (value, bool) {
		b := args[0].([]value)
		if fr.symNonASCIIHead(b) {
			return nil, false
		}
		return fr.decodeRune(b), true
	}
	I["unicode/utf8.DecodeRuneInString"] = func(fr *frame, args []value) (value, bool) {
		b := strBytes(args[0])
		if fr.symNonASCIIHead(b) {
			return nil, false
		}
		return fr.decodeRune(b), true
	}
	I["unicode/utf8.RuneLen"] = func(fr *frame, args []value) (value, bool) {
		if r, ok := args[0].(int32); ok {
			return utf8.RuneLen(r), true
		}
		if s, ok := args[0].(symv); ok && s.t.hi < 0x80 {
			return 1, true
		}
		return nil, false
	}
	I["unicode/utf8.ValidString"] = func(fr *frame, args []value) (value, bool) {
		if s, ok := args[0].(string); ok {
			return utf8.ValidString(s), true
		}
		return nil, false
	}
	I["unicode/utf8.RuneCountInString"] = func(fr *frame, args []value) (value, bool) {
		if s, ok := args[0].(string); ok {
			return utf8.RuneCountInString(s), true
		}
		return nil, false
	}
	uni1 := func(f func(rune) bool, ascii func(c uint64) bool) intrinsicFn {
		return func(fr *frame, args []value) (value, bool) {
			switch r := args[0].(type) {
			case int32:
				return f(r), true
			case symv:
				return fr.asciiPredicate(r, ascii), true
			}
			return nil, false
		}
	}
	I["unicode.IsLetter"] = uni1(unicode.IsLetter, func(c uint64) bool { return unicode.IsLetter(rune(c)) })
	I["unicode.IsDigit"] = uni1(unicode.IsDigit, func(c uint64) bool { return unicode.IsDigit(rune(c)) })
	I["unicode.IsSpace"] = uni1(unicode.IsSpace, func(c uint64) bool { return unicode.IsSpace(rune(c)) })
	I["unicode.IsUpper"] = uni1(unicode.IsUpper, func(c uint64) bool { return unicode.IsUpper(rune(c)) })
	I["unicode.IsLower"] = uni1(unicode.IsLower, func(c uint64) bool { return unicode.IsLower(rune(c)) })
	I["unicode.IsPrint"] = uni1(unicode.IsPrint, func(c uint64) bool { return unicode.IsPrint(rune(c)) })
	I["unicode.IsPunct"] = uni1(unicode.IsPunct, func(c uint64) bool { return unicode.IsPunct(rune(c)) })
	I["unicode.IsControl"] = uni1(unicode.IsControl, func(c uint64) bool { return unicode.IsControl(rune(c)) })
	I["unicode.ToLower"] = func(fr *frame, args []value) (value, bool) {
		switch r := args[0].(type) {
		case int32:
			return unicode.ToLower(r), true
		case symv:
			if r.t.hi < 'A' || (r.t.lo > 'Z' && r.t.hi < 0x80) {
				return r, true
			}
			st := fr.i.st
			if r.t.hi < 0x80 {
				isUp := st.And(st.Ule(st.Const(32, 'A'), r.t), st.Ule(r.t, st.Const(32, 'Z')))
				return fr.i.mkSym(st.Ite(isUp, st.Bin(OpAdd, r.t, st.Const(32, 32)), r.t), types.Int32), true
			}
		}
		return nil, false
	}
	I["unicode.ToUpper"] = func(fr *frame, args []value) (value, bool) {
		switch r := args[0].(type) {
		case int32:
			return unicode.ToUpper(r), true
		case symv:
			if r.t.hi < 'a' || (r.t.lo > 'z' && r.t.hi < 0x80) {
				return r, true
			}
			st := fr.i.st
			if r.t.hi < 0x80 {
				isLo := st.And(st.Ule(st.Const(32, 'a'), r.t), st.Ule(r.t, st.Const(32, 'z')))
				return fr.i.mkSym(st.Ite(isLo, st.Bin(OpSub, r.t, st.Const(32, 32)), r.t), types.Int32), true
			}
		}
		return nil, false
	}

	// ---- regexp (native, concrete only) ----
	I["regexp.MatchString"] = func(fr *frame, args []value) (value, bool) {
		pat, ok1 := args[0].(string)
		s, ok2 := args[1].(string)
		if !ok1 {
			inconclusive("regexp.MatchString with symbolic pattern")
		}
		if !ok2 {
			// symbolic subject: sound only for patterns without digit atoms;
			// digits are replaced by a representative
			if strings.ContainsAny(pat, "0123456789\\[.") {
				inconclusive("regexp.MatchString on symbolic subject with pattern %q", pat)
			}
			bs := strBytes(args[1])
			rep := make([]byte, len(bs))
			for i, e := range bs {
				switch e := e.(type) {
				case uint8:
					rep[i] = e
				case symv:
					if e.t.lo >= '0' && e.t.hi <= '9' {
						rep[i] = '0'
					} else {
						rep[i] = byte(fr.concretize(e))
					}
				}
			}
			s = string(rep)
		}
		m, err := regexp.MatchString(pat, s)
		if err != nil {
			return tuple{m, fr.i.mkError(err.Error())}, true
		}
		return tuple{m, nilError()}, true
	}

	// ---- sync ----
	for _, n := range []string{"(*sync.Mutex).Lock", "(*sync.Mutex).Unlock", "(*sync.RWMutex).Lock", "(*sync.RWMutex).Unlock",
		"(*sync.RWMutex).RLock", "(*sync.RWMutex).RUnlock", "(*sync.WaitGroup).Add", "(*sync.WaitGroup).Done", "(*sync.WaitGroup).Wait",
		"(*sync.Pool).Put", "runtime.GC", "runtime.KeepAlive", "runtime.SetFinalizer", "runtime.Gosched"} {
		I[n] = noop
	}
	I["(*sync.Mutex).TryLock"] = func(fr *frame, args []value) (value, bool) { return true, true }
	I["(*sync.Pool).Get"] = func(fr *frame, args []value) (value, bool) {
		// always-empty pool: call New if set
		p := args[0].(*value)
		st := (*p).(structure)
		newFn := st[len(st)-1]
		switch f := newFn.(type) {
		case *ssa.Function:
			if f == nil {
				return iface{}, true
			}
		}
		return fr.i.call(fr, 0, newFn, nil), true
	}
	I["(*sync.Once).Do"] = func(fr *frame, args []value) (value, bool) {
		p := args[0].(*value)
		key := p
		if fr.i.env.onceDone[key] {
			return nil, true
		}
		fr.i.env.onceDone[key] = true
		in := fr.i
		in.logUndo(func() { delete(in.env.onceDone, key) })
		fr.i.call(fr, 0, args[1], nil)
		return nil, true
	}
	I["runtime.Callers"] = func(fr *frame, args []value) (value, bool) { return 0, true }
	I["runtime.Caller"] = func(fr *frame, args []value) (value, bool) {
		return tuple{uintptr(0), "", 0, false}, true
	}

	// ---- os / exit ----
	I["os.Exit"] = func(fr *frame, args []value) (value, bool) {
		panic(exitPanic(int(fr.concreteInt(args[0]))))
	}
	I["os.Getenv"] = func(fr *frame, args []value) (value, bool) { return "", true }
	I["os.Getpid"] = func(fr *frame, args []value) (value, bool) { return 4242, true }
	_ = os.Exit
}

func errTail(err error) string {
	if ne, ok := err.(*strconv.NumError); ok {
		return ne.Err.Error()
	}
	return err.Error()
}

// indexByte finds the first occurrence of byte c in b, forking on symbolic
// comparisons that interval facts cannot decide.
func (fr *frame) indexByte(b []value, c value) value {
	for i, e := range b {
		if fr.byteEq(e, c) {
			return i
		}
	}
	return -1
}

func (fr *frame) indexSub(s, sub []value) value {
	n := len(sub)
	for i := 0; i+n <= len(s); i++ {
		match := true
		for j := 0; j < n; j++ {
			if !fr.byteEq(s[i+j], sub[j]) {
				match = false
				break
			}
		}
		if match {
			return i
		}
	}
	return -1
}

// symNonASCIIHead reports (forking if undecided) whether the sequence starts
// with a symbolic byte >= 0x80, or with a concrete lead byte followed by
// symbolic continuation bytes.
func (fr *frame) symNonASCIIHead(b []value) bool {
	if len(b) == 0 {
		return false
	}
	switch e := b[0].(type) {
	case symv:
		if e.t.hi < 0x80 {
			return false
		}
		return !fr.branch(fr.i.st.Ult(e.t, fr.i.st.Const(8, 0x80)))
	case uint8:
		if e < utf8.RuneSelf {
			return false
		}
		for j := 1; j < len(b) && j < 4; j++ {
			if _, sym := b[j].(symv); sym {
				return true
			}
		}
	}
	return false
}

// decodeRune models utf8.DecodeRune on a byte sequence whose first byte may
// be symbolic (ASCII only in that case).
func (fr *frame) decodeRune(b []value) value {
	if len(b) == 0 {
		return tuple{int32(utf8.RuneError), 0}
	}
	if s, ok := b[0].(symv); ok {
		return tuple{fr.byteToRune(s), 1}
	}
	c := b[0].(uint8)
	if c < utf8.RuneSelf {
		return tuple{int32(c), 1}
	}
	var buf [4]byte
	n := 0
	for j := 0; j < len(b) && n < 4; j++ {
		cb, ok := b[j].(uint8)
		if !ok {
			break
		}
		buf[n] = cb
		n++
	}
	r, size := utf8.DecodeRune(buf[:n])
	return tuple{r, size}
}

// asciiPredicate evaluates a character-class predicate on a symbolic rune
// known to be ASCII, as a term (disjunction of ranges).
func (fr *frame) asciiPredicate(r symv, pred func(c uint64) bool) value {
	in := fr.i
	st := in.st
	t := r.t
	if t.hi >= 0x80 {
		if !fr.branch(st.Ult(t, st.Const(t.w, 0x80))) {
			inconclusive("unicode predicate on symbolic non-ASCII rune")
		}
	}
	lo, hi := t.lo, t.hi
	if hi > 0x7f {
		hi = 0x7f
	}
	// decided on the whole interval?
	allT, allF := true, true
	for c := lo; c <= hi; c++ {
		if pred(c) {
			allF = false
		} else {
			allT = false
		}
	}
	if allT {
		return true
	}
	if allF {
		return false
	}
	acc := st.ff
	c := lo
	for c <= hi {
		if !pred(c) {
			c++
			continue
		}
		e := c
		for e+1 <= hi && pred(e+1) {
			e++
		}
		acc = st.Or(acc, st.And(st.Ule(st.Const(t.w, c), t), st.Ule(t, st.Const(t.w, e))))
		c = e + 1
	}
	return in.mkSym(acc, types.Bool)
}

// parseIntSym models Atoi/ParseInt/ParseUint on text with symbolic bytes.
// Supported: text that is exactly one decimal atom (with optional sign).
func (fr *frame) parseIntSym(s *symString, base, bits int, fn string, kind types.BasicKind) value {
	in := fr.i
	st := in.st
	var t *Term
	ok := false
	if base == 10 || base == 0 {
		t, ok = fr.parseDecimal(s.b)
	}
	if !ok {
		// not a pure numeral: if some concrete byte is a non-digit the parse fails
		for i, e := range s.b {
			if c, ok := e.(uint8); ok {
				if (c < '0' || c > '9') && !(i == 0 && (c == '-' || c == '+')) && c != '_' {
					return tuple{zeroOfKind(kind), in.mkError("strconv." + fn + ": parsing: invalid syntax")}
				}
			}
		}
		// few symbolic bytes among concrete text: enumerate their values and
		// parse natively
		cs := fr.concretizeString(s).(string)
		switch kind {
		case types.Uint64:
			n, err := strconv.ParseUint(cs, base, bits)
			if err != nil {
				return tuple{n, in.mkError("strconv." + fn + ": parsing " + strconv.Quote(cs) + ": " + errTail(err))}
			}
			return tuple{n, nilError()}
		case types.Int:
			n, err := strconv.ParseInt(cs, base, 0)
			if err != nil {
				return tuple{int(n), in.mkError("strconv." + fn + ": parsing " + strconv.Quote(cs) + ": " + errTail(err))}
			}
			return tuple{int(n), nilError()}
		default:
			n, err := strconv.ParseInt(cs, base, bits)
			if err != nil {
				return tuple{n, in.mkError("strconv." + fn + ": parsing " + strconv.Quote(cs) + ": " + errTail(err))}
			}
			return tuple{n, nilError()}
		}
	}
	if bits == 0 {
		bits = 64
	}
	neg := false
	if c, ok := s.b[0].(uint8); ok && c == '-' {
		neg = true
	}
	// the atom's magnitude is < 2^64 by construction; range check for the
	// requested size
	var inRange *Term
	if kind == types.Uint64 {
		if neg {
			return tuple{uint64(0), in.mkError("strconv." + fn + ": parsing: invalid syntax")}
		}
		if bits >= 64 {
			inRange = st.tt
		} else {
			inRange = st.Ult(t, st.Const(64, uint64(1)<<uint(bits)))
		}
	} else {
		// signed result in [-2^(bits-1), 2^(bits-1)-1]; the magnitude must
		// also be representable
		mag := t
		if neg {
			mag = st.Un(OpNeg, t)
			inRange = st.Ule(mag, st.Const(64, uint64(1)<<uint(bits-1)))
		} else {
			inRange = st.Ult(mag, st.Const(64, uint64(1)<<uint(bits-1)))
		}
	}
	if !fr.branch(inRange) {
		// out of range: strconv returns the clamped value and an error
		var clamp uint64
		switch {
		case kind == types.Uint64:
			clamp = mask(bits)
		case neg:
			clamp = uint64(-(int64(1) << uint(bits-1)))
		default:
			clamp = uint64(int64(1)<<uint(bits-1) - 1)
		}
		return tuple{mkInt(kind, clamp), in.mkError("strconv." + fn + ": parsing: value out of range")}
	}
	return tuple{in.mkSym(in.convTerm(t, types.Int64, kind), kind), nilError()}
}

func zeroOfKind(k types.BasicKind) value { return mkInt(k, 0) }

var _ = fmt.Sprintf

// ---- sync.Map: modelled as an insertion-ordered map keyed by interface values ----

func (fr *frame) syncMapOf(recv value, create bool) *omap {
	p := recv.(*value)
	in := fr.i
	if m, ok := in.env.syncMaps[p]; ok {
		return m
	}
	if !create {
		return nil
	}
	m := makeMap(types.NewInterfaceType(nil, nil), 0)
	in.env.syncMaps[p] = m
	in.logUndo(func() { delete(in.env.syncMaps, p) })
	return m
}

func init() {
	I := intrinsics
	I["(*sync.Map).Load"] = func(fr *frame, args []value) (value, bool) {
		m := fr.syncMapOf(args[0], false)
		if m != nil {
			if v, ok := m.lookup(args[1]); ok {
				return tuple{v, true}, true
			}
		}
		return tuple{iface{}, false}, true
	}
	I["(*sync.Map).Store"] = func(fr *frame, args []value) (value, bool) {
		fr.syncMapOf(args[0], true).insert(fr.i, args[1], args[2])
		return nil, true
	}
	I["(*sync.Map).LoadOrStore"] = func(fr *frame, args []value) (value, bool) {
		m := fr.syncMapOf(args[0], true)
		if v, ok := m.lookup(args[1]); ok {
			return tuple{v, true}, true
		}
		m.insert(fr.i, args[1], args[2])
		return tuple{args[2], false}, true
	}
	I["(*sync.Map).Delete"] = func(fr *frame, args []value) (value, bool) {
		if m := fr.syncMapOf(args[0], false); m != nil {
			m.delete(fr.i, args[1])
		}
		return nil, true
	}
	I["(*sync.Map).Range"] = func(fr *frame, args []value) (value, bool) {
		if m := fr.syncMapOf(args[0], false); m != nil {
			for i := 0; i < len(m.keys); i++ {
				if !m.live[i] {
					continue
				}
				r := fr.i.call(fr, 0, args[1], []value{m.keys[i], m.vals[i]})
				if b, ok := r.(bool); ok && !b {
					break
				}
			}
		}
		return nil, true
	}
}

// ---- runtime call-stack introspection (used by error wrappers): one fake frame ----

func init() {
	I := intrinsics
	I["runtime.Callers"] = func(fr *frame, args []value) (value, bool) {
		pcs := args[1].([]value)
		if len(pcs) == 0 {
			return 0, true
		}
		fr.i.undo = append(fr.i.undo, undoRec{addr: &pcs[0], old: pcs[0]})
		pcs[0] = uintptr(1)
		return 1, true
	}
	I["runtime.CallersFrames"] = func(fr *frame, args []value) (value, bool) {
		cell := new(value)
		*cell = &native{kind: "frames"}
		return cell, true
	}
	I["(*runtime.Frames).Next"] = func(fr *frame, args []value) (value, bool) {
		rt := fr.i.prog.ImportedPackage("runtime")
		ft := rt.Type("Frame").Object().Type()
		fv := zero(ft).(structure)
		st := ft.Underlying().(*types.Struct)
		for i := 0; i < st.NumFields(); i++ {
			switch st.Field(i).Name() {
			case "Function":
				fv[i] = "github.com/HobbyOSs/gosk/unknown.caller"
			case "File":
				fv[i] = "/unknown/caller.go"
			case "Line":
				fv[i] = 1
			}
		}
		return tuple{fv, false}, true
	}
	I["runtime.FuncForPC"] = func(fr *frame, args []value) (value, bool) { return (*value)(nil), true }
}
