package gosym

// Model of text/template for the shapes gosk uses: literal text with
// {{.name}} actions executed over map[string]int32.  Anything else is run
// natively when fully concrete, and is inconclusive otherwise.

import (
	"bytes"
	"fmt"
	"go/types"
	"regexp"
	"text/template"
)

type tmplModel struct {
	name   string
	text   value // string or *symString
	parsed *template.Template
}

var simpleAction = regexp.MustCompile(`^\.[A-Za-z_][A-Za-z0-9_]*$`)

func representative(fr *frame, v value) string {
	switch s := v.(type) {
	case string:
		return s
	case *symString:
		out := make([]byte, len(s.b))
		for i, e := range s.b {
			switch e := e.(type) {
			case uint8:
				out[i] = e
			case symv:
				if e.t.lo >= '0' && e.t.hi <= '9' {
					out[i] = '0'
				} else {
					out[i] = byte(fr.concretize(e))
				}
			default:
				inconclusive("template text with opaque bytes")
			}
		}
		return string(out)
	}
	panic("representative")
}

func (fr *frame) tmplOf(v value) *tmplModel {
	p, ok := v.(*value)
	if !ok || p == nil {
		panic(runtimeError("runtime error: invalid memory address or nil pointer dereference (nil *template.Template)"))
	}
	n, ok := (*p).(*native)
	if !ok || n.kind != "template" {
		inconclusive("operation on unmodelled *template.Template")
	}
	return n.obj.(*tmplModel)
}

func (fr *frame) writeTo(w value, data []value) {
	itf := w.(iface)
	ms := fr.i.prog.MethodSets.MethodSet(itf.t)
	for i := 0; i < ms.Len(); i++ {
		if ms.At(i).Obj().Name() == "Write" {
			fn := fr.i.prog.MethodValue(ms.At(i))
			fr.i.call(fr, 0, fn, []value{itf.v, data})
			return
		}
	}
	inconclusive("writer %s has no Write method", itf.t)
}

func init() {
	I := intrinsics
	I["text/template.New"] = func(fr *frame, args []value) (value, bool) {
		name, _ := args[0].(string)
		cell := new(value)
		*cell = &native{kind: "template", obj: &tmplModel{name: name}}
		return cell, true
	}
	I["(*text/template.Template).Parse"] = func(fr *frame, args []value) (value, bool) {
		tm := fr.tmplOf(args[0])
		rep := representative(fr, args[1])
		parsed, err := template.New(tm.name).Parse(rep)
		if err != nil {
			return tuple{(*value)(nil), fr.i.mkError(err.Error())}, true
		}
		tm.text = args[1]
		tm.parsed = parsed
		return tuple{args[0], nilError()}, true
	}
	I["(*text/template.Template).Execute"] = func(fr *frame, args []value) (value, bool) {
		tm := fr.tmplOf(args[0])
		if tm.parsed == nil {
			return fr.i.mkError("template: incomplete or empty template"), true
		}
		data := args[2].(iface)
		var m *omap
		if data.t != nil {
			m, _ = data.v.(*omap)
		}
		b := strBytes(tm.text)
		var out []value
		i := 0
		simple := true
		for i < len(b) {
			if i+1 < len(b) && isByte(b[i], '{') && isByte(b[i+1], '{') {
				// find closing
				j := i + 2
				for j+1 < len(b) && !(isByte(b[j], '}') && isByte(b[j+1], '}')) {
					j++
				}
				if j+1 >= len(b) {
					simple = false
					break
				}
				act, ok := normStr(b[i+2 : j]).(string)
				if !ok || !simpleAction.MatchString(act) || m == nil {
					simple = false
					break
				}
				v, found := m.lookup(act[1:])
				if !found {
					out = append(out, strToSym("<no value>").b...)
				} else {
					switch x := v.(type) {
					case symv:
						out = append(out, strBytes(fr.formatInt(x))...)
					default:
						out = append(out, strToSym(fmt.Sprintf("%d", asInt64(x))).b...)
					}
				}
				i = j + 2
				continue
			}
			out = append(out, b[i])
			i++
		}
		if !simple {
			// general template: native execution on concrete data only
			text, ok := tm.text.(string)
			if !ok {
				// enumerate the symbolic bytes and re-parse natively
				text = fr.concretizeString(tm.text.(*symString)).(string)
				np, perr := template.New(tm.name).Parse(text)
				if perr != nil {
					return fr.i.mkError(perr.Error()), true
				}
				tm.parsed = np
			}
			nm := map[string]int32{}
			if m != nil {
				for k := range m.keys {
					if !m.live[k] {
						continue
					}
					ks, ok1 := m.keys[k].(string)
					vi, ok2 := m.vals[k].(int32)
					if !ok1 || !ok2 {
						inconclusive("general template over symbolic data")
					}
					nm[ks] = vi
				}
			}
			_ = text
			var buf bytes.Buffer
			err := tm.parsed.Execute(&buf, nm)
			fr.writeTo(args[1], bytesToValue(buf.Bytes()))
			if err != nil {
				return fr.i.mkError(err.Error()), true
			}
			return nilError(), true
		}
		fr.writeTo(args[1], out)
		return nilError(), true
	}
	_ = types.Typ
}

func isByte(v value, c byte) bool {
	b, ok := v.(uint8)
	return ok && b == c
}
