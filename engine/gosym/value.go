// Portions adapted from golang.org/x/tools/go/ssa/interp (value.go, map.go).
// Copyright 2013 The Go Authors. All rights reserved.
// Use of this source code is governed by a BSD-style license.

package gosym

// Values
//
// All interpreter values are boxed in the empty interface, value.
// Dynamic types:
//
//   - bool, intN, uintN, uintptr, float32/64, string      concrete basics
//   - symv                                                symbolic bool/integer (SMT term + Go kind)
//   - *symString                                          string with symbolic bytes
//   - *omap                                               maps (insertion ordered, undo-logged)
//   - []value                                             slices
//   - iface, structure, array, *value, tuple, *closure,
//     *ssa.Function, *ssa.Builtin, iter                   as in x/tools interp
//   - *native                                             opaque handle for modelled library objects

import (
	"bytes"
	"fmt"
	"go/types"
	"unsafe"

	"golang.org/x/tools/go/ssa"
	"golang.org/x/tools/go/types/typeutil"
)

type value interface{}

type tuple []value

type array []value

type iface struct {
	t types.Type // never an "untyped" type
	v value
}

type structure []value

type iter interface {
	next(fr *frame) tuple
}

type closure struct {
	Fn  *ssa.Function
	Env []value
}

type bad struct{}

// native is an opaque handle to a modelled library object.
type native struct {
	kind string
	obj  interface{}
}

// symv is a symbolic boolean or integer.
type symv struct {
	t *Term
	k types.BasicKind // Bool, Int, Int8, ..., Uintptr
}

// symString is a string some of whose bytes are symbolic.  Elements are
// uint8 or symv{Uint8}.  Immutable.
type symString struct {
	b []value
}

// Inconclusive is raised (as a Go panic) when the engine cannot continue a
// path soundly.
type Inconclusive struct{ Reason string }

func (e Inconclusive) Error() string { return "inconclusive: " + e.Reason }

func inconclusive(format string, args ...interface{}) {
	panic(Inconclusive{fmt.Sprintf(format, args...)})
}

func hashString(s string) int {
	var h uint32
	for i := 0; i < len(s); i++ {
		h ^= uint32(s[i])
		h *= 16777619
	}
	return int(h)
}

var hasher = typeutil.MakeHasher()

func hashType(t types.Type) int {
	return int(hasher.Hash(t))
}

func sameType(x, y types.Type) bool {
	if x == nil {
		return y == nil
	}
	return y != nil && types.Identical(x, y)
}

// kindOf returns the basic kind of an integer/bool dynamic value.
func kindOf(x value) types.BasicKind {
	switch x := x.(type) {
	case bool:
		return types.Bool
	case int:
		return types.Int
	case int8:
		return types.Int8
	case int16:
		return types.Int16
	case int32:
		return types.Int32
	case int64:
		return types.Int64
	case uint:
		return types.Uint
	case uint8:
		return types.Uint8
	case uint16:
		return types.Uint16
	case uint32:
		return types.Uint32
	case uint64:
		return types.Uint64
	case uintptr:
		return types.Uintptr
	case symv:
		return x.k
	}
	return types.Invalid
}

func kindWidth(k types.BasicKind) int {
	switch k {
	case types.Bool:
		return 0
	case types.Int8, types.Uint8:
		return 8
	case types.Int16, types.Uint16:
		return 16
	case types.Int32, types.Uint32:
		return 32
	case types.Int, types.Int64, types.Uint, types.Uint64, types.Uintptr:
		return 64
	}
	panic(fmt.Sprintf("kindWidth: %v", k))
}

func kindSigned(k types.BasicKind) bool {
	switch k {
	case types.Int, types.Int8, types.Int16, types.Int32, types.Int64:
		return true
	}
	return false
}

// mkInt boxes the low bits of v as a value of kind k.
func mkInt(k types.BasicKind, v uint64) value {
	switch k {
	case types.Bool:
		return v != 0
	case types.Int:
		return int(v)
	case types.Int8:
		return int8(v)
	case types.Int16:
		return int16(v)
	case types.Int32:
		return int32(v)
	case types.Int64:
		return int64(v)
	case types.Uint:
		return uint(v)
	case types.Uint8:
		return uint8(v)
	case types.Uint16:
		return uint16(v)
	case types.Uint32:
		return uint32(v)
	case types.Uint64:
		return uint64(v)
	case types.Uintptr:
		return uintptr(v)
	}
	panic(fmt.Sprintf("mkInt: %v", k))
}

// intBits returns the value of a concrete integer as sign- or zero-extended
// 64 bits, and whether x was a concrete integer.
func intBits(x value) (uint64, bool) {
	switch x := x.(type) {
	case int:
		return uint64(x), true
	case int8:
		return uint64(x), true
	case int16:
		return uint64(x), true
	case int32:
		return uint64(x), true
	case int64:
		return uint64(x), true
	case uint:
		return uint64(x), true
	case uint8:
		return uint64(x), true
	case uint16:
		return uint64(x), true
	case uint32:
		return uint64(x), true
	case uint64:
		return x, true
	case uintptr:
		return uint64(x), true
	}
	return 0, false
}

// equals returns true iff x and y are equal according to Go's equivalence
// relation for type t.  Symbolic operands must have been handled by the
// caller (symEquals); reaching one here is inconclusive.
func equals(t types.Type, x, y value) bool {
	switch x := x.(type) {
	case bool:
		return x == y.(bool)
	case int:
		return x == y.(int)
	case int8:
		return x == y.(int8)
	case int16:
		return x == y.(int16)
	case int32:
		return x == y.(int32)
	case int64:
		return x == y.(int64)
	case uint:
		return x == y.(uint)
	case uint8:
		return x == y.(uint8)
	case uint16:
		return x == y.(uint16)
	case uint32:
		return x == y.(uint32)
	case uint64:
		return x == y.(uint64)
	case uintptr:
		return x == y.(uintptr)
	case float32:
		return x == y.(float32)
	case float64:
		return x == y.(float64)
	case complex64:
		return x == y.(complex64)
	case complex128:
		return x == y.(complex128)
	case string:
		if ys, ok := y.(string); ok {
			return x == ys
		}
	case *value:
		return x == y.(*value)
	case unsafe.Pointer:
		return x == y.(unsafe.Pointer)
	case *native:
		return x == y.(*native)
	case structure:
		return x.eq(t, y)
	case array:
		return x.eq(t, y)
	case iface:
		return x.eq(t, y)
	case *omap:
		return x == y.(*omap)
	case []value:
		// only reachable through nil comparisons handled in eqnil
	}
	if isSym(x) || isSym(y) {
		panic(symCompare{t, x, y})
	}
	panic(fmt.Sprintf("comparing uncomparable type %s (%T, %T)", t, x, y))
}

// symCompare is raised by equals when it meets a symbolic operand deep
// inside a structure; the interpreter catches it and answers symbolically.
type symCompare struct {
	t    types.Type
	x, y value
}

func isSym(x value) bool {
	switch x.(type) {
	case symv, *symString:
		return true
	}
	return false
}

func (x array) eq(t types.Type, _y interface{}) bool {
	y := _y.(array)
	tElt := t.Underlying().(*types.Array).Elem()
	for i, xi := range x {
		if !equals(tElt, xi, y[i]) {
			return false
		}
	}
	return true
}

func (x array) hash(t types.Type) int {
	h := 0
	tElt := t.Underlying().(*types.Array).Elem()
	for _, xi := range x {
		h += hash(t, tElt, xi)
	}
	return h
}

func (x structure) eq(t types.Type, _y interface{}) bool {
	y := _y.(structure)
	tStruct := t.Underlying().(*types.Struct)
	for i, n := 0, tStruct.NumFields(); i < n; i++ {
		if f := tStruct.Field(i); f.Name() != "_" {
			if !equals(f.Type(), x[i], y[i]) {
				return false
			}
		}
	}
	return true
}

func (x structure) hash(t types.Type) int {
	tStruct := t.Underlying().(*types.Struct)
	h := 0
	for i, n := 0, tStruct.NumFields(); i < n; i++ {
		if f := tStruct.Field(i); f.Name() != "_" {
			h += hash(t, f.Type(), x[i])
		}
	}
	return h
}

func (x iface) eq(t types.Type, _y interface{}) bool {
	y := _y.(iface)
	return sameType(x.t, y.t) && (x.t == nil || equals(x.t, x.v, y.v))
}

func (x iface) hash(outer types.Type) int {
	return hashType(x.t)*8581 + hash(outer, x.t, x.v)
}

func hash(outer, t types.Type, x value) int {
	switch x := x.(type) {
	case bool:
		if x {
			return 1
		}
		return 0
	case int:
		return x
	case int8:
		return int(x)
	case int16:
		return int(x)
	case int32:
		return int(x)
	case int64:
		return int(x)
	case uint:
		return int(x)
	case uint8:
		return int(x)
	case uint16:
		return int(x)
	case uint32:
		return int(x)
	case uint64:
		return int(x)
	case uintptr:
		return int(x)
	case float32:
		return int(x)
	case float64:
		return int(x)
	case string:
		return hashString(x)
	case *value:
		return int(uintptr(unsafe.Pointer(x)))
	case *native:
		return int(uintptr(unsafe.Pointer(x)))
	case structure:
		return x.hash(t)
	case array:
		return x.hash(t)
	case iface:
		return x.hash(t)
	case symv, *symString:
		inconclusive("symbolic value used as map key (%s)", outer)
	}
	panic(fmt.Sprintf("unhashable type %v (%T)", outer, x))
}

// ---------------------------------------------------------------------
// omap: insertion-ordered hash map

type omap struct {
	keyType types.Type
	index   map[int][]int // hash -> entry indices
	keys    []value
	vals    []value
	live    []bool
	n       int
}

func makeMap(kt types.Type, reserve int64) *omap {
	return &omap{keyType: kt, index: make(map[int][]int)}
}

func (m *omap) find(k value) int {
	if m == nil {
		return -1
	}
	h := hash(m.keyType, m.keyType, k)
	for _, i := range m.index[h] {
		if m.live[i] && equals(m.keyType, m.keys[i], k) {
			return i
		}
	}
	return -1
}

func (m *omap) lookup(k value) (value, bool) {
	i := m.find(k)
	if i < 0 {
		return nil, false
	}
	return m.vals[i], true
}

func (m *omap) len() int {
	if m == nil {
		return 0
	}
	return m.n
}

// insert associates k with v, logging the change in the undo log.
func (m *omap) insert(in *Interp, k, v value) {
	if m == nil {
		panic("assignment to entry in nil map")
	}
	if i := m.find(k); i >= 0 {
		old := m.vals[i]
		m.vals[i] = v
		in.logUndo(func() { m.vals[i] = old })
		return
	}
	h := hash(m.keyType, m.keyType, k)
	i := len(m.keys)
	m.keys = append(m.keys, k)
	m.vals = append(m.vals, v)
	m.live = append(m.live, true)
	m.index[h] = append(m.index[h], i)
	m.n++
	in.logUndo(func() {
		m.keys = m.keys[:i]
		m.vals = m.vals[:i]
		m.live = m.live[:i]
		l := m.index[h]
		m.index[h] = l[:len(l)-1]
		m.n--
	})
}

func (m *omap) delete(in *Interp, k value) {
	if m == nil {
		return
	}
	if i := m.find(k); i >= 0 {
		m.live[i] = false
		m.n--
		in.logUndo(func() { m.live[i] = true; m.n++ })
	}
}

type omapIter struct {
	m     *omap
	order []int
	pos   int
}

func (it *omapIter) next(fr *frame) tuple {
	for it.pos < len(it.order) {
		i := it.order[it.pos]
		it.pos++
		if i < len(it.m.live) && it.m.live[i] {
			return tuple{true, it.m.keys[i], it.m.vals[i]}
		}
	}
	return tuple{false, nil, nil}
}

// ---------------------------------------------------------------------

// load returns the value of type T in *addr (deep copy of aggregates).
func load(T types.Type, addr *value) value {
	switch T := T.Underlying().(type) {
	case *types.Struct:
		v := (*addr).(structure)
		a := make(structure, len(v))
		for i := range a {
			a[i] = load(T.Field(i).Type(), &v[i])
		}
		return a
	case *types.Array:
		v := (*addr).(array)
		a := make(array, len(v))
		for i := range a {
			a[i] = load(T.Elem(), &v[i])
		}
		return a
	default:
		return *addr
	}
}

// copyVal returns a deep copy of aggregate values (structs and arrays have
// value semantics).
func copyVal(v value) value {
	switch v := v.(type) {
	case structure:
		a := make(structure, len(v))
		for i := range v {
			a[i] = copyVal(v[i])
		}
		return a
	case array:
		a := make(array, len(v))
		for i := range v {
			a[i] = copyVal(v[i])
		}
		return a
	}
	return v
}

// store stores value v of type T into *addr, logging old contents.
func (in *Interp) store(T types.Type, addr *value, v value) {
	switch T := T.Underlying().(type) {
	case *types.Struct:
		lhs := (*addr).(structure)
		rhs := v.(structure)
		for i := range lhs {
			in.store(T.Field(i).Type(), &lhs[i], rhs[i])
		}
	case *types.Array:
		lhs := (*addr).(array)
		rhs := v.(array)
		for i := range lhs {
			in.store(T.Elem(), &lhs[i], rhs[i])
		}
	default:
		in.undo = append(in.undo, undoRec{addr: addr, old: *addr})
		*addr = v
	}
}

func writeValue(buf *bytes.Buffer, v value) {
	switch v := v.(type) {
	case nil, bool, int, int8, int16, int32, int64, uint, uint8, uint16, uint32, uint64, uintptr, float32, float64, complex64, complex128, string:
		fmt.Fprintf(buf, "%v", v)
	case symv:
		fmt.Fprintf(buf, "sym(%s)", v.t)
	case *symString:
		buf.WriteString(v.debug())
	case *omap:
		buf.WriteString("map[")
		if v != nil {
			for i := range v.keys {
				if v.live[i] {
					writeValue(buf, v.keys[i])
					buf.WriteString(":")
					writeValue(buf, v.vals[i])
					buf.WriteString(" ")
				}
			}
		}
		buf.WriteString("]")
	case *value:
		if v == nil {
			buf.WriteString("<nil>")
		} else {
			fmt.Fprintf(buf, "%p", v)
		}
	case iface:
		fmt.Fprintf(buf, "(%s, ", v.t)
		writeValue(buf, v.v)
		buf.WriteString(")")
	case structure:
		buf.WriteString("{")
		for i, e := range v {
			if i > 0 {
				buf.WriteString(" ")
			}
			writeValue(buf, e)
		}
		buf.WriteString("}")
	case array:
		buf.WriteString("[")
		for i, e := range v {
			if i > 0 {
				buf.WriteString(" ")
			}
			writeValue(buf, e)
		}
		buf.WriteString("]")
	case []value:
		buf.WriteString("[")
		for i, e := range v {
			if i > 0 {
				buf.WriteString(" ")
			}
			if i > 64 {
				buf.WriteString("…")
				break
			}
			writeValue(buf, e)
		}
		buf.WriteString("]")
	case *ssa.Function, *ssa.Builtin, *closure:
		fmt.Fprintf(buf, "%p", v)
	case tuple:
		buf.WriteString("(")
		for i, e := range v {
			if i > 0 {
				buf.WriteString(", ")
			}
			writeValue(buf, e)
		}
		buf.WriteString(")")
	default:
		fmt.Fprintf(buf, "<%T>", v)
	}
}

func toString(v value) string {
	var b bytes.Buffer
	writeValue(&b, v)
	return b.String()
}
