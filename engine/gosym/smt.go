package gosym

// SMT term DAG (hash-consed), light simplifier, unsigned interval facts,
// SMT-LIB2 printer.  Bit-vectors of width 1..64 and Bool (w == 0).

import (
	"fmt"
	"math/bits"
	"strings"
)

type Op uint8

const (
	OpVar Op = iota
	OpConst
	OpTrue
	OpFalse
	// bit-vector -> bit-vector
	OpAdd
	OpSub
	OpMul
	OpUDiv
	OpURem
	OpSDiv
	OpSRem
	OpAnd
	OpOr
	OpXor
	OpNot
	OpNeg
	OpShl
	OpLShr
	OpAShr
	OpZExt // val = extra bits
	OpSExt // val = extra bits
	OpExtr // val = hi<<8 | lo
	OpIte  // args: cond(bool), a, b (bv or bool)
	OpConcat
	// -> bool
	OpEq
	OpUlt
	OpUle
	OpSlt
	OpSle
	OpBNot
	OpBAnd
	OpBOr
)

var opNames = map[Op]string{
	OpAdd: "bvadd", OpSub: "bvsub", OpMul: "bvmul", OpUDiv: "bvudiv", OpURem: "bvurem",
	OpSDiv: "bvsdiv", OpSRem: "bvsrem", OpAnd: "bvand", OpOr: "bvor", OpXor: "bvxor",
	OpNot: "bvnot", OpNeg: "bvneg", OpShl: "bvshl", OpLShr: "bvlshr", OpAShr: "bvashr",
	OpIte: "ite", OpConcat: "concat", OpEq: "=", OpUlt: "bvult", OpUle: "bvule", OpSlt: "bvslt", OpSle: "bvsle",
	OpBNot: "not", OpBAnd: "and", OpBOr: "or",
}

type Term struct {
	id     int
	op     Op
	w      int // bit width; 0 for Bool
	args   []*Term
	val    uint64
	name   string
	lo, hi uint64   // unsigned interval (bit-vectors only)
	atom   *decAtom // non-nil for digit variables of a decimal atom
}

func (t *Term) IsConst() bool { return t.op == OpConst || t.op == OpTrue || t.op == OpFalse }
func (t *Term) IsBool() bool  { return t.w == 0 }
func (t *Term) Width() int    { return t.w }

type termKey struct {
	op         Op
	w          int
	val        uint64
	name       string
	a0, a1, a2 int
}

// Store owns all terms of one worker.
type Store struct {
	ranged map[string]*Term
	tab    map[termKey]*Term
	terms  []*Term
	tt     *Term
	ff     *Term
}

func NewStore() *Store {
	s := &Store{tab: make(map[termKey]*Term), ranged: make(map[string]*Term)}
	s.tt = s.mk(OpTrue, 0, 0, "", nil)
	s.ff = s.mk(OpFalse, 0, 0, "", nil)
	return s
}

func mask(w int) uint64 {
	if w >= 64 {
		return ^uint64(0)
	}
	return (uint64(1) << uint(w)) - 1
}

func (s *Store) mk(op Op, w int, val uint64, name string, args []*Term) *Term {
	k := termKey{op: op, w: w, val: val, name: name, a0: -1, a1: -1, a2: -1}
	if len(args) > 0 {
		k.a0 = args[0].id
	}
	if len(args) > 1 {
		k.a1 = args[1].id
	}
	if len(args) > 2 {
		k.a2 = args[2].id
	}
	if len(args) > 3 {
		panic("smt: too many args")
	}
	if t, ok := s.tab[k]; ok {
		return t
	}
	t := &Term{id: len(s.terms), op: op, w: w, args: args, val: val, name: name}
	if w > 0 {
		t.lo, t.hi = 0, mask(w)
		s.interval(t)
	}
	s.terms = append(s.terms, t)
	s.tab[k] = t
	return t
}

func (s *Store) interval(t *Term) {
	m := mask(t.w)
	switch t.op {
	case OpConst:
		t.lo, t.hi = t.val, t.val
	case OpZExt:
		t.lo, t.hi = t.args[0].lo, t.args[0].hi
	case OpSExt:
		a := t.args[0]
		if a.hi < uint64(1)<<uint(a.w-1) {
			t.lo, t.hi = a.lo, a.hi
		}
	case OpAnd:
		a, b := t.args[0], t.args[1]
		h := a.hi
		if b.hi < h {
			h = b.hi
		}
		t.lo, t.hi = 0, h
	case OpOr:
		a, b := t.args[0], t.args[1]
		l := a.lo
		if b.lo > l {
			l = b.lo
		}
		t.lo = l
		// upper bound: next power of two minus one
		h := a.hi | b.hi
		if h != 0 {
			n := bits.Len64(h)
			h = mask(n)
		}
		if h > m {
			h = m
		}
		t.hi = h
	case OpAdd:
		a, b := t.args[0], t.args[1]
		hs, c := bits.Add64(a.hi, b.hi, 0)
		if c == 0 && hs <= m {
			t.lo, t.hi = a.lo+b.lo, hs
		}
	case OpSub:
		a, b := t.args[0], t.args[1]
		if a.lo >= b.hi {
			t.lo, t.hi = a.lo-b.hi, a.hi-b.lo
		}
	case OpMul:
		a, b := t.args[0], t.args[1]
		h, l := bits.Mul64(a.hi, b.hi)
		if h == 0 && l <= m {
			t.lo, t.hi = a.lo*b.lo, l
		}
	case OpExtr:
		a := t.args[0]
		lo := int(t.val & 0xff)
		if lo == 0 && a.hi <= m {
			t.lo, t.hi = a.lo, a.hi
		}
	case OpLShr:
		a, b := t.args[0], t.args[1]
		if b.op == OpConst && b.val < 64 {
			t.lo, t.hi = a.lo>>b.val, a.hi>>b.val
		} else {
			t.hi = a.hi
		}
	case OpURem:
		b := t.args[1]
		if b.lo > 0 {
			t.hi = b.hi - 1
		}
	case OpUDiv:
		a, b := t.args[0], t.args[1]
		if b.lo > 0 {
			t.lo, t.hi = a.lo/b.hi, a.hi/b.lo
		}
	case OpIte:
		a, b := t.args[1], t.args[2]
		t.lo, t.hi = a.lo, a.hi
		if b.lo < t.lo {
			t.lo = b.lo
		}
		if b.hi > t.hi {
			t.hi = b.hi
		}
	}
}

func (s *Store) True() *Term  { return s.tt }
func (s *Store) False() *Term { return s.ff }
func (s *Store) Bool(b bool) *Term {
	if b {
		return s.tt
	}
	return s.ff
}

func (s *Store) Const(w int, v uint64) *Term {
	return s.mk(OpConst, w, v&mask(w), "", nil)
}

// Var creates (or returns) the variable with the given name.  lo/hi give an
// unsigned range fact (must also be asserted by the caller if not full range).
func (s *Store) Var(name string, w int) *Term {
	return s.mk(OpVar, w, 0, name, nil)
}

// VarRange returns the variable `name` carrying the unsigned range fact
// [lo,hi].  The range is part of the term's identity, so facts derived from
// it can never leak to a use of the same name with another range.
func (s *Store) VarRange(name string, w int, lo, hi uint64) *Term {
	key := fmt.Sprintf("%s\x00%d:%d:%d", name, w, lo, hi)
	if t, ok := s.ranged[key]; ok {
		return t
	}
	t := &Term{id: len(s.terms), op: OpVar, w: w, name: name, lo: lo, hi: hi}
	s.terms = append(s.terms, t)
	s.ranged[key] = t
	return t
}

func sextTo64(v uint64, w int) int64 {
	if w >= 64 {
		return int64(v)
	}
	sh := uint(64 - w)
	return int64(v<<sh) >> sh
}

func (s *Store) Bin(op Op, a, b *Term) *Term {
	if a.w != b.w {
		panic(fmt.Sprintf("smt: width mismatch %s %d vs %d", opNames[op], a.w, b.w))
	}
	w := a.w
	m := mask(w)
	if a.op == OpConst && b.op == OpConst {
		x, y := a.val, b.val
		switch op {
		case OpAdd:
			return s.Const(w, x+y)
		case OpSub:
			return s.Const(w, x-y)
		case OpMul:
			return s.Const(w, x*y)
		case OpAnd:
			return s.Const(w, x&y)
		case OpOr:
			return s.Const(w, x|y)
		case OpXor:
			return s.Const(w, x^y)
		case OpUDiv:
			if y == 0 {
				return s.Const(w, m)
			}
			return s.Const(w, x/y)
		case OpURem:
			if y == 0 {
				return s.Const(w, x)
			}
			return s.Const(w, x%y)
		case OpSDiv:
			sx, sy := sextTo64(x, w), sextTo64(y, w)
			if sy == 0 {
				if sx >= 0 {
					return s.Const(w, m)
				}
				return s.Const(w, 1)
			}
			if sy == -1 {
				return s.Const(w, uint64(-sx))
			}
			return s.Const(w, uint64(sx/sy))
		case OpSRem:
			sx, sy := sextTo64(x, w), sextTo64(y, w)
			if sy == 0 {
				return s.Const(w, x)
			}
			if sy == -1 {
				return s.Const(w, 0)
			}
			return s.Const(w, uint64(sx%sy))
		case OpShl:
			if y >= uint64(w) {
				return s.Const(w, 0)
			}
			return s.Const(w, x<<y)
		case OpLShr:
			if y >= uint64(w) {
				return s.Const(w, 0)
			}
			return s.Const(w, x>>y)
		case OpAShr:
			sx := sextTo64(x, w)
			if y >= uint64(w) {
				y = uint64(w - 1)
			}
			return s.Const(w, uint64(sx>>y))
		}
	}
	// identities
	switch op {
	case OpAdd:
		if a.op == OpConst && a.val == 0 {
			return b
		}
		if b.op == OpConst && b.val == 0 {
			return a
		}
		if a.op == OpConst { // canonical: const on the right
			a, b = b, a
		}
		// (x + c1) + c2
		if b.op == OpConst && a.op == OpAdd && a.args[1].op == OpConst {
			return s.Bin(OpAdd, a.args[0], s.Const(w, a.args[1].val+b.val))
		}
	case OpSub:
		if b.op == OpConst && b.val == 0 {
			return a
		}
		if a == b {
			return s.Const(w, 0)
		}
		if b.op == OpConst {
			return s.Bin(OpAdd, a, s.Const(w, -b.val))
		}
		// (x + c1) - (x + c2), (x + c1) - x, x - (x + c2)
		{
			ax, ac := a, uint64(0)
			if a.op == OpAdd && a.args[1].op == OpConst {
				ax, ac = a.args[0], a.args[1].val
			}
			bx, bc := b, uint64(0)
			if b.op == OpAdd && b.args[1].op == OpConst {
				bx, bc = b.args[0], b.args[1].val
			}
			if ax == bx {
				return s.Const(w, ac-bc)
			}
		}
		if a.op == OpConst && a.val == 0 {
			return s.Un(OpNeg, b)
		}
	case OpMul:
		if a.op == OpConst {
			a, b = b, a
		}
		if b.op == OpConst {
			if b.val == 0 {
				return b
			}
			if b.val == 1 {
				return a
			}
		}
	case OpAnd:
		if a.op == OpConst {
			a, b = b, a
		}
		if b.op == OpConst {
			if b.val == 0 {
				return b
			}
			if b.val == m {
				return a
			}
			if a.hi <= b.val && b.val&(b.val+1) == 0 {
				// mask of low bits covering the whole range of a
				return a
			}
		}
		if a == b {
			return a
		}
	case OpOr:
		if a.op == OpConst {
			a, b = b, a
		}
		if b.op == OpConst {
			if b.val == 0 {
				return a
			}
			if b.val == m {
				return b
			}
		}
		if a == b {
			return a
		}
	case OpXor:
		if a.op == OpConst {
			a, b = b, a
		}
		if b.op == OpConst && b.val == 0 {
			return a
		}
		if a == b {
			return s.Const(w, 0)
		}
	case OpShl, OpLShr, OpAShr:
		if b.op == OpConst && b.val == 0 {
			return a
		}
		if b.op == OpConst && b.val >= uint64(w) && op != OpAShr {
			return s.Const(w, 0)
		}
	case OpUDiv, OpSDiv:
		if b.op == OpConst && b.val == 1 {
			return a
		}
	}
	return s.mk(op, w, 0, "", []*Term{a, b})
}

func (s *Store) Un(op Op, a *Term) *Term {
	w := a.w
	if a.op == OpConst {
		switch op {
		case OpNot:
			return s.Const(w, ^a.val)
		case OpNeg:
			return s.Const(w, -a.val)
		}
	}
	if a.op == op { // double negation
		return a.args[0]
	}
	return s.mk(op, w, 0, "", []*Term{a})
}

func (s *Store) ZExt(a *Term, to int) *Term {
	if to == a.w {
		return a
	}
	if to < a.w {
		panic("smt: zext to smaller width")
	}
	if a.op == OpConst {
		return s.Const(to, a.val)
	}
	if a.op == OpZExt {
		return s.ZExt(a.args[0], to)
	}
	return s.mk(OpZExt, to, uint64(to-a.w), "", []*Term{a})
}

func (s *Store) SExt(a *Term, to int) *Term {
	if to == a.w {
		return a
	}
	if to < a.w {
		panic("smt: sext to smaller width")
	}
	if a.op == OpConst {
		return s.Const(to, uint64(sextTo64(a.val, a.w)))
	}
	if a.hi < uint64(1)<<uint(a.w-1) {
		return s.ZExt(a, to)
	}
	if a.op == OpSExt {
		return s.SExt(a.args[0], to)
	}
	return s.mk(OpSExt, to, uint64(to-a.w), "", []*Term{a})
}

// Extract bits hi..lo (inclusive).
func (s *Store) Extract(a *Term, hi, lo int) *Term {
	w := hi - lo + 1
	if lo == 0 && w == a.w {
		return a
	}
	if a.op == OpConst {
		return s.Const(w, a.val>>uint(lo))
	}
	if (a.op == OpZExt || a.op == OpSExt) && lo == 0 {
		inner := a.args[0]
		if w == inner.w {
			return inner
		}
		if w < inner.w {
			return s.Extract(inner, hi, 0)
		}
		if a.op == OpZExt {
			return s.ZExt(inner, w)
		}
		return s.SExt(inner, w)
	}
	if a.op == OpExtr {
		ilo := int(a.val & 0xff)
		return s.Extract(a.args[0], hi+ilo, lo+ilo)
	}
	// slice of an extension that lies entirely inside the inner term
	if (a.op == OpZExt || a.op == OpSExt) && hi < a.args[0].w {
		return s.Extract(a.args[0], hi, lo)
	}
	// slice of a zero extension entirely above the inner term
	if a.op == OpZExt && lo >= a.args[0].w {
		return s.Const(w, 0)
	}
	// slice of a shift by a constant is a slice of the operand
	if (a.op == OpLShr || a.op == OpAShr) && a.args[1].op == OpConst {
		c := int(a.args[1].val)
		if c < a.w && hi+c < a.w {
			return s.Extract(a.args[0], hi+c, lo+c)
		}
	}
	if a.op == OpShl && a.args[1].op == OpConst {
		c := int(a.args[1].val)
		if c < a.w && lo >= c {
			return s.Extract(a.args[0], hi-c, lo-c)
		}
		if c < a.w && hi < c {
			return s.Const(w, 0)
		}
	}
	if a.op == OpConcat {
		lw := a.args[1].w
		if hi < lw {
			return s.Extract(a.args[1], hi, lo)
		}
		if lo >= lw {
			return s.Extract(a.args[0], hi-lw, lo-lw)
		}
	}
	// truncation distributes over add/sub/mul/and/or/xor when lo == 0:
	// keeps terms small for byte extraction of sums
	if a.op == OpAnd || a.op == OpOr || a.op == OpXor {
		return s.Bin(a.op, s.Extract(a.args[0], hi, lo), s.Extract(a.args[1], hi, lo))
	}
	// low slice of add/sub/mul/neg depends only on the low bits of the operands
	if lo == 0 && (a.op == OpAdd || a.op == OpSub || a.op == OpMul) && w < a.w {
		return s.Bin(a.op, s.Extract(a.args[0], hi, 0), s.Extract(a.args[1], hi, 0))
	}
	if lo == 0 && a.op == OpNeg && w < a.w {
		return s.Un(OpNeg, s.Extract(a.args[0], hi, 0))
	}
	return s.mk(OpExtr, w, uint64(hi)<<8|uint64(lo), "", []*Term{a})
}

func (s *Store) Concat(hiT, loT *Term) *Term {
	w := hiT.w + loT.w
	if hiT.op == OpConst && loT.op == OpConst {
		return s.Const(w, hiT.val<<uint(loT.w)|loT.val)
	}
	if hiT.op == OpConst && hiT.val == 0 {
		return s.ZExt(loT, w)
	}
	return s.mk(OpConcat, w, 0, "", []*Term{hiT, loT})
}

func (s *Store) Ite(c, a, b *Term) *Term {
	if c == s.tt {
		return a
	}
	if c == s.ff {
		return b
	}
	if a == b {
		return a
	}
	if a.w == 0 {
		// boolean ite
		if a == s.tt && b == s.ff {
			return c
		}
		if a == s.ff && b == s.tt {
			return s.Not(c)
		}
	}
	return s.mk(OpIte, a.w, 0, "", []*Term{c, a, b})
}

// ---- booleans ----

func (s *Store) Not(a *Term) *Term {
	switch a.op {
	case OpTrue:
		return s.ff
	case OpFalse:
		return s.tt
	case OpBNot:
		return a.args[0]
	}
	return s.mk(OpBNot, 0, 0, "", []*Term{a})
}

func (s *Store) And(a, b *Term) *Term {
	if a == s.ff || b == s.ff {
		return s.ff
	}
	if a == s.tt {
		return b
	}
	if b == s.tt {
		return a
	}
	if a == b {
		return a
	}
	if a.id > b.id {
		a, b = b, a
	}
	return s.mk(OpBAnd, 0, 0, "", []*Term{a, b})
}

func (s *Store) Or(a, b *Term) *Term {
	if a == s.tt || b == s.tt {
		return s.tt
	}
	if a == s.ff {
		return b
	}
	if b == s.ff {
		return a
	}
	if a == b {
		return a
	}
	if a.id > b.id {
		a, b = b, a
	}
	return s.mk(OpBOr, 0, 0, "", []*Term{a, b})
}

func (s *Store) Eq(a, b *Term) *Term {
	if a.w != b.w {
		panic(fmt.Sprintf("smt: eq width mismatch %d vs %d", a.w, b.w))
	}
	if a == b {
		return s.tt
	}
	if a.w == 0 {
		if a.IsConst() && b.IsConst() {
			return s.Bool(a == b)
		}
		if a == s.tt {
			return b
		}
		if b == s.tt {
			return a
		}
		if a == s.ff {
			return s.Not(b)
		}
		if b == s.ff {
			return s.Not(a)
		}
	} else {
		if a.op == OpConst && b.op == OpConst {
			return s.Bool(a.val == b.val)
		}
		if a.hi < b.lo || b.hi < a.lo {
			return s.ff
		}
		if a.op == OpConst {
			a, b = b, a
		}
		// zext(x) == c  -> x == c'
		if b.op == OpConst && a.op == OpZExt {
			in := a.args[0]
			if b.val > mask(in.w) {
				return s.ff
			}
			return s.Eq(in, s.Const(in.w, b.val))
		}
		// (x + c1) == c2 -> x == c2-c1
		if b.op == OpConst && a.op == OpAdd && a.args[1].op == OpConst {
			return s.Eq(a.args[0], s.Const(a.w, b.val-a.args[1].val))
		}
	}
	if a.id > b.id {
		a, b = b, a
	}
	return s.mk(OpEq, 0, 0, "", []*Term{a, b})
}

func (s *Store) Ult(a, b *Term) *Term {
	if a.op == OpConst && b.op == OpConst {
		return s.Bool(a.val < b.val)
	}
	if a == b {
		return s.ff
	}
	if a.hi < b.lo {
		return s.tt
	}
	if a.lo >= b.hi {
		return s.ff
	}
	if a.op == OpZExt && b.op == OpConst && b.val <= mask(a.args[0].w) {
		in := a.args[0]
		return s.Ult(in, s.Const(in.w, b.val))
	}
	if b.op == OpZExt && a.op == OpConst && a.val <= mask(b.args[0].w) {
		in := b.args[0]
		return s.Ult(s.Const(in.w, a.val), in)
	}
	return s.mk(OpUlt, 0, 0, "", []*Term{a, b})
}

func (s *Store) Ule(a, b *Term) *Term {
	if a.op == OpConst && b.op == OpConst {
		return s.Bool(a.val <= b.val)
	}
	if a == b {
		return s.tt
	}
	if a.hi <= b.lo {
		return s.tt
	}
	if a.lo > b.hi {
		return s.ff
	}
	return s.Not(s.Ult(b, a))
}

func nonnegSigned(t *Term) bool {
	return t.hi < uint64(1)<<uint(t.w-1)
}

func (s *Store) Slt(a, b *Term) *Term {
	if a.op == OpConst && b.op == OpConst {
		return s.Bool(sextTo64(a.val, a.w) < sextTo64(b.val, b.w))
	}
	if a == b {
		return s.ff
	}
	if nonnegSigned(a) && nonnegSigned(b) {
		return s.Ult(a, b)
	}
	// sext(x) < c where c fits: compare at the narrow width
	if a.op == OpSExt && b.op == OpConst {
		in := a.args[0]
		c := sextTo64(b.val, b.w)
		lo, hi := -(int64(1) << uint(in.w-1)), int64(1)<<uint(in.w-1)-1
		if c > hi {
			return s.tt
		}
		if c <= lo {
			return s.ff
		}
		return s.Slt(in, s.Const(in.w, uint64(c)))
	}
	if b.op == OpSExt && a.op == OpConst {
		in := b.args[0]
		c := sextTo64(a.val, a.w)
		lo, hi := -(int64(1) << uint(in.w-1)), int64(1)<<uint(in.w-1)-1
		if c >= hi {
			return s.ff
		}
		if c < lo {
			return s.tt
		}
		return s.Slt(s.Const(in.w, uint64(c)), in)
	}
	return s.mk(OpSlt, 0, 0, "", []*Term{a, b})
}

func (s *Store) Sle(a, b *Term) *Term {
	if a == b {
		return s.tt
	}
	return s.Not(s.Slt(b, a))
}

// RawRange builds lo <=u t <=u hi without consulting interval facts (used to
// tell the solver the facts the simplifier already trusts).
func (s *Store) RawRange(t *Term, lo, hi uint64) *Term {
	a := s.mk(OpUle, 0, 0, "", []*Term{s.Const(t.w, lo), t})
	b := s.mk(OpUle, 0, 0, "", []*Term{t, s.Const(t.w, hi)})
	return s.mk(OpBAnd, 0, 0, "", []*Term{a, b})
}

// ---- printing ----

func bvLit(w int, v uint64) string {
	if w%4 == 0 {
		return fmt.Sprintf("#x%0*x", w/4, v&mask(w))
	}
	return fmt.Sprintf("(_ bv%d %d)", v&mask(w), w)
}

func sortOf(t *Term) string {
	if t.w == 0 {
		return "Bool"
	}
	return fmt.Sprintf("(_ BitVec %d)", t.w)
}

// ref returns the SMT-LIB name by which t is referred to in a context where
// its definition has been emitted.
func (t *Term) ref() string {
	switch t.op {
	case OpVar:
		return "|" + t.name + "|"
	case OpConst:
		return bvLit(t.w, t.val)
	case OpTrue:
		return "true"
	case OpFalse:
		return "false"
	}
	return fmt.Sprintf("t%d", t.id)
}

func (t *Term) body() string {
	var sb strings.Builder
	switch t.op {
	case OpZExt:
		fmt.Fprintf(&sb, "((_ zero_extend %d) %s)", t.val, t.args[0].ref())
	case OpSExt:
		fmt.Fprintf(&sb, "((_ sign_extend %d) %s)", t.val, t.args[0].ref())
	case OpExtr:
		fmt.Fprintf(&sb, "((_ extract %d %d) %s)", t.val>>8, t.val&0xff, t.args[0].ref())
	default:
		sb.WriteString("(")
		sb.WriteString(opNames[t.op])
		for _, a := range t.args {
			sb.WriteString(" ")
			sb.WriteString(a.ref())
		}
		sb.WriteString(")")
	}
	return sb.String()
}

// String renders a term as a self-contained expression (for diagnostics).
func (t *Term) String() string {
	switch t.op {
	case OpVar, OpConst, OpTrue, OpFalse:
		return t.ref()
	case OpZExt:
		return fmt.Sprintf("(zext%d %s)", t.val, t.args[0])
	case OpSExt:
		return fmt.Sprintf("(sext%d %s)", t.val, t.args[0])
	case OpExtr:
		return fmt.Sprintf("(extract[%d:%d] %s)", t.val>>8, t.val&0xff, t.args[0])
	}
	var sb strings.Builder
	sb.WriteString("(")
	sb.WriteString(opNames[t.op])
	for _, a := range t.args {
		sb.WriteString(" ")
		s := a.String()
		if len(s) > 400 {
			s = s[:400] + "…"
		}
		sb.WriteString(s)
	}
	sb.WriteString(")")
	return sb.String()
}

// Eval evaluates t under a model (variable name -> value).  Missing variables
// evaluate to 0.
func (t *Term) Eval(model map[string]uint64, memo map[int]uint64) uint64 {
	if v, ok := memo[t.id]; ok {
		return v
	}
	var r uint64
	b2u := func(b bool) uint64 {
		if b {
			return 1
		}
		return 0
	}
	arg := func(i int) uint64 { return t.args[i].Eval(model, memo) }
	switch t.op {
	case OpVar:
		r = model[t.name] & maskB(t.w)
	case OpConst:
		r = t.val
	case OpTrue:
		r = 1
	case OpFalse:
		r = 0
	case OpZExt:
		r = arg(0)
	case OpSExt:
		r = uint64(sextTo64(arg(0), t.args[0].w)) & mask(t.w)
	case OpExtr:
		r = (arg(0) >> (t.val & 0xff)) & mask(t.w)
	case OpConcat:
		r = arg(0)<<uint(t.args[1].w) | arg(1)
	case OpIte:
		if arg(0) != 0 {
			r = arg(1)
		} else {
			r = arg(2)
		}
	case OpNot:
		r = ^arg(0) & mask(t.w)
	case OpNeg:
		r = -arg(0) & mask(t.w)
	case OpBNot:
		r = 1 - arg(0)
	case OpBAnd:
		r = arg(0) & arg(1)
	case OpBOr:
		r = arg(0) | arg(1)
	case OpEq:
		r = b2u(arg(0) == arg(1))
	case OpUlt:
		r = b2u(arg(0) < arg(1))
	case OpUle:
		r = b2u(arg(0) <= arg(1))
	case OpSlt:
		r = b2u(sextTo64(arg(0), t.args[0].w) < sextTo64(arg(1), t.args[1].w))
	case OpSle:
		r = b2u(sextTo64(arg(0), t.args[0].w) <= sextTo64(arg(1), t.args[1].w))
	default:
		// binary bit-vector ops: reuse the constant folder
		st := NewStore()
		c := st.Bin(t.op, st.Const(t.w, arg(0)), st.Const(t.w, arg(1)))
		r = c.val
	}
	memo[t.id] = r
	return r
}

func maskB(w int) uint64 {
	if w == 0 {
		return 1
	}
	return mask(w)
}
