package gosym

// Path exploration: depth-first search by re-execution with a decision
// prefix; the solver is kept in lock-step with the path condition.

import (
	"fmt"
	"go/types"
	"os"
	"sort"
	"strings"
	"time"
)

type decision struct {
	alt, nalts int
	forced     bool
	unchecked  bool // feasibility of alternatives > 0 not established at discovery
	payload    uint64
	prefix     bool // cell prefix supplied by the coordinator (arity unknown)
}

// pathEnd terminates the current path (engine-level; invisible to the target).
type pathEnd struct {
	kind string // "assume", "infeasible", "violation", "budget", "done", "discover"
	msg  string
}

type Violation struct {
	ID        string            `json:"assert_id"`
	Msg       string            `json:"msg"`
	Model     map[string]int64  `json:"model"`
	Chooses   map[string]int    `json:"chooses"`
	Notes     map[string]string `json:"notes,omitempty"`
	Params    map[string]int    `json:"params,omitempty"`
	Labels    map[string]string `json:"labels,omitempty"`
	Decisions []int             `json:"decisions"`
	Outcome   string            `json:"outcome,omitempty"`
	Stack     string            `json:"stack,omitempty"`
	PathCond  []string          `json:"path_condition,omitempty"`
}

type pathState struct {
	decs                    []decision
	pos                     int
	checkAt                 int
	pc                      []*Term
	known                   map[int]bool
	vars                    []*Term
	varKinds                map[string]types.BasicKind
	chooses                 map[string]int
	chooseSeq               []string
	notes                   map[string]string
	reached                 map[string]bool
	atoms                   map[int]*decAtom // term id -> digitisation (per path)
	linked                  map[*decAtom]bool
	tblVars                 map[tblKey]*Term // large-table reads abstracted on this path
	tblRecs                 []*tblRec
	pinned                  map[int]uint64 // terms concretised to a value on this path
	tblFacts                []*Term
	asserts                 int
	unsatAsserts            int
	knownHit                map[string]bool
	labels                  map[string]string
	noteBytes               map[string][]value
	lastModel, pendingModel map[string]uint64
	modelMemo               map[int]uint64
	pendingFor              *Term
	kfCandidates            []*Finding
}

func (in *Interp) newPath(decs []decision, checkAt int) *pathState {
	return &pathState{
		decs: decs, checkAt: checkAt,
		known:     map[int]bool{},
		varKinds:  map[string]types.BasicKind{},
		chooses:   map[string]int{},
		notes:     map[string]string{},
		reached:   map[string]bool{},
		atoms:     map[int]*decAtom{},
		linked:    map[*decAtom]bool{},
		knownHit:  map[string]bool{},
		labels:    map[string]string{},
		noteBytes: map[string][]value{},
	}
}

// allVars lists every variable of the path (nondet and digit variables).
func (p *pathState) allVars() []*Term {
	vs := append([]*Term(nil), p.vars...)
	for _, a := range p.atoms {
		vs = append(vs, a.digits...)
	}
	return vs
}

// markKnown records that t has truth value b on this path.
func (p *pathState) markKnown(t *Term, b bool) {
	p.known[t.id] = b
	switch t.op {
	case OpBNot:
		p.markKnown(t.args[0], !b)
	case OpBAnd:
		if b {
			p.markKnown(t.args[0], true)
			p.markKnown(t.args[1], true)
		}
	case OpBOr:
		if !b {
			p.markKnown(t.args[0], false)
			p.markKnown(t.args[1], false)
		}
	}
}

func (p *pathState) lookupKnown(t *Term) (bool, bool) {
	if v, ok := p.known[t.id]; ok {
		return v, true
	}
	switch t.op {
	case OpBNot:
		if v, ok := p.lookupKnown(t.args[0]); ok {
			return !v, true
		}
	case OpBAnd:
		a, oka := p.lookupKnown(t.args[0])
		b, okb := p.lookupKnown(t.args[1])
		if (oka && !a) || (okb && !b) {
			return false, true
		}
		if oka && okb {
			return true, true
		}
	case OpBOr:
		a, oka := p.lookupKnown(t.args[0])
		b, okb := p.lookupKnown(t.args[1])
		if (oka && a) || (okb && b) {
			return true, true
		}
		if oka && okb {
			return false, true
		}
	}
	return false, false
}

// assume adds c to the path condition (no feasibility check).
func (in *Interp) assume(c *Term) {
	if c == in.st.tt {
		return
	}
	p := in.path
	// keep or replace the cached model
	if p.pendingModel != nil && p.pendingFor == c {
		p.lastModel, p.modelMemo = p.pendingModel, map[int]uint64{}
	} else if p.lastModel != nil {
		if c.Eval(p.lastModel, p.modelMemo) == 0 {
			p.lastModel = nil
		}
	}
	p.pendingModel, p.pendingFor = nil, nil
	in.linkAtoms(c)
	p.pc = append(p.pc, c)
	p.markKnown(c, true)
	in.sv.Assert(c)
}

// evalUnderLastModel evaluates c under the most recent model of the path
// condition, if one is cached and still satisfies everything assumed since.
func (in *Interp) evalUnderLastModel(c *Term) (bool, bool) {
	p := in.path
	if p.lastModel == nil {
		return false, false
	}
	v := c.Eval(p.lastModel, p.modelMemo)
	return v != 0, true
}

func (in *Interp) checkWith(c *Term, timeoutMs int) Result {
	in.linkAtoms(c)
	in.sv.Push()
	in.sv.Assert(c)
	t0 := time.Now()
	r := in.sv.Check(timeoutMs)
	if r == Sat && in.path != nil {
		in.path.pendingModel = in.sv.Model(in.path.allVars())
		in.path.pendingFor = c
	}
	in.Stats.SolverNs += time.Since(t0).Nanoseconds()
	in.sv.Pop()
	in.Stats.SolverQueries++
	switch r {
	case Sat:
		in.Stats.Sat++
	case Unsat:
		in.Stats.Unsat++
	default:
		in.Stats.Unknown++
	}
	return r
}

func (in *Interp) record(d decision) int {
	p := in.path
	p.decs = append(p.decs, d)
	p.pos = len(p.decs)
	return len(p.decs) - 1
}

// branch decides a symbolic condition, forking the path if both sides are
// feasible.
func (fr *frame) branch(c *Term) bool {
	in := fr.i
	switch c.op {
	case OpTrue:
		return true
	case OpFalse:
		return false
	}
	p := in.path
	if p == nil {
		inconclusive("symbolic branch outside a path (during initialisation)")
	}
	if v, ok := p.lookupKnown(c); ok {
		return v
	}
	in.Stats.Branches++
	nc := in.st.Not(c)
	if p.pos < len(p.decs) {
		idx := p.pos
		d := &p.decs[idx]
		p.pos++
		taken := d.alt == 0
		ct := c
		if !taken {
			ct = nc
		}
		in.assume(ct)
		if idx == p.checkAt {
			in.checkFlipped()
		}
		return taken
	}
	// model reuse: if the last model of the path condition already decides
	// one side, that side is feasible without asking
	if mv, ok := in.evalUnderLastModel(c); ok {
		other := nc
		if !mv {
			other = c
		}
		r := in.checkWith(other, in.cfg.FeasTimeoutMs)
		if r == Unknown {
			inconclusive("solver unknown on branch feasibility at %s", fr.where())
		}
		if r == Unsat {
			alt := 0
			if !mv {
				alt = 1
			}
			in.record(decision{alt: alt, nalts: 2, forced: true})
			if mv {
				in.assume(c)
			} else {
				in.assume(nc)
			}
			return mv
		}
		in.record(decision{alt: 0, nalts: 2})
		in.assume(c)
		return true
	}
	rT := in.checkWith(c, in.cfg.FeasTimeoutMs)
	if rT == Unknown {
		inconclusive("solver unknown on branch feasibility at %s", fr.where())
	}
	if rT == Unsat {
		in.record(decision{alt: 1, nalts: 2, forced: true})
		in.assume(nc)
		return false
	}
	rF := in.checkWith(nc, in.cfg.FeasTimeoutMs)
	if rF == Unknown {
		inconclusive("solver unknown on branch feasibility at %s", fr.where())
	}
	if rF == Unsat {
		in.record(decision{alt: 0, nalts: 2, forced: true})
		in.assume(c)
		return true
	}
	in.record(decision{alt: 0, nalts: 2})
	in.assume(c)
	return true
}

func (fr *frame) where() string {
	for f := fr; f != nil; f = f.caller {
		if f.fn != nil && f.caller != nil {
			return fmt.Sprintf("%s (called from %s at %s)", f.fn, f.caller.fn, posString(fr.i.prog, f.callpos))
		}
	}
	return "?"
}

// checkFlipped verifies that the path condition is still satisfiable after a
// flipped decision whose feasibility had not been checked at discovery.
func (in *Interp) checkFlipped() {
	r := in.checkWith(in.st.tt, in.cfg.FeasTimeoutMs)
	switch r {
	case Unsat:
		panic(pathEnd{kind: "infeasible"})
	case Unknown:
		inconclusive("solver unknown on flipped decision feasibility")
	}
}

// choose makes a concrete n-way nondeterministic choice.
func (in *Interp) choose(name string, n int) int {
	p := in.path
	if p == nil {
		inconclusive("Choose outside a path")
	}
	if n <= 0 {
		panic(pathEnd{kind: "assume", msg: "Choose with no alternatives"})
	}
	var alt int
	if p.pos < len(p.decs) {
		d := &p.decs[p.pos]
		if d.prefix {
			d.nalts = n
			if d.alt >= n {
				panic(pathEnd{kind: "assume", msg: "prefix out of range"})
			}
		}
		if d.nalts != n {
			inconclusive("non-deterministic replay: Choose(%s) arity %d vs recorded %d", name, n, d.nalts)
		}
		p.pos++
		alt = d.alt
	} else {
		in.record(decision{alt: 0, nalts: n, forced: n == 1})
		alt = 0
	}
	if _, dup := p.chooses[name]; !dup {
		p.chooseSeq = append(p.chooseSeq, name)
	}
	p.chooses[name] = alt
	if in.cfg.DiscoverDepth > 0 && len(p.chooseSeq) >= in.cfg.DiscoverDepth {
		panic(pathEnd{kind: "discover"})
	}
	return alt
}

// concretize forks over the feasible values of a symbolic integer.
func (fr *frame) concretize(s symv) int64 {
	in := fr.i
	t := s.t
	p := in.path
	if p == nil {
		inconclusive("concretize outside a path")
	}
	signed := kindSigned(s.k)
	ret := func(c uint64) int64 {
		if signed {
			return sextTo64(c, t.w)
		}
		return int64(c)
	}
	// a term already pinned to a value on this path needs no new decision
	if c, ok := p.pinned[t.id]; ok {
		return ret(c)
	}
	for iter := 0; iter < in.cfg.ConcretizeLimit; iter++ {
		if t.lo == t.hi {
			return ret(t.lo)
		}
		var c uint64
		var idx int
		if p.pos < len(p.decs) {
			idx = p.pos
			c = p.decs[idx].payload
			p.pos++
		} else {
			if progress {
				fmt.Fprintf(os.Stderr, "concretize %s at %s\n", trunc(t.String(), 200), fr.where())
			}
			c = in.modelValue(t)
			idx = in.record(decision{alt: 0, nalts: 2, unchecked: true, payload: c})
		}
		eq := in.st.Eq(t, in.st.Const(t.w, c))
		if p.decs[idx].alt == 0 {
			in.assume(eq)
			if p.pinned == nil {
				p.pinned = map[int]uint64{}
			}
			p.pinned[t.id] = c
			return ret(c)
		}
		in.assume(in.st.Not(eq))
		if idx == p.checkAt {
			in.checkFlipped()
		}
	}
	inconclusive("more than %d feasible values while concretising at %s", in.cfg.ConcretizeLimit, fr.where())
	return 0
}

// modelValue returns the value of t in some model of the path condition.
func (in *Interp) modelValue(t *Term) uint64 {
	in.sv.define(t)
	r := in.sv.Check(in.cfg.FeasTimeoutMs)
	in.Stats.SolverQueries++
	if r != Sat {
		inconclusive("cannot obtain model value")
	}
	// use get-value on the defined name directly
	in.sv.send(fmt.Sprintf("(get-value (%s))", t.ref()))
	in.sv.in.Flush()
	line, err := in.sv.readLine()
	if err != nil {
		inconclusive("solver died")
	}
	// ((tN #x..))
	i := strings.Index(line, " ")
	if i < 0 {
		inconclusive("unexpected get-value answer %q", line)
	}
	val := strings.TrimSuffix(strings.TrimSpace(line[i+1:]), "))")
	return parseValue(strings.TrimSpace(val))
}

func trunc(s string, n int) string {
	if len(s) > n {
		return s[:n] + "…"
	}
	return s
}

func maxInt(a, b int) int {
	if a > b {
		return a
	}
	return b
}

// concreteInt returns the concrete value of an integer, concretising
// symbolic ones.
func (fr *frame) concreteInt(x value) int64 {
	if s, ok := x.(symv); ok {
		return fr.concretize(s)
	}
	return asInt64(x)
}

// concreteIndex bounds-checks idx against n and returns it concretely.
func (fr *frame) concreteIndex(idx value, n int) int64 {
	if s, ok := idx.(symv); ok {
		in := fr.i
		t := in.convTerm(s.t, s.k, types.Int64)
		if !fr.branch(in.st.Ult(t, in.st.Const(64, uint64(n)))) {
			panic(runtimeError(fmt.Sprintf("runtime error: index out of range [symbolic] with length %d", n)))
		}
		return fr.concretize(s)
	}
	i := asInt64(idx)
	if i < 0 || i >= int64(n) {
		panic(runtimeError(fmt.Sprintf("runtime error: index out of range [%d] with length %d", i, n)))
	}
	return i
}

// indexValue reads elems[idx] where idx may be symbolic.
func (fr *frame) indexValue(elems []value, idx value) value {
	s, ok := idx.(symv)
	if !ok {
		i := asInt64(idx)
		if i < 0 || i >= int64(len(elems)) {
			panic(runtimeError(fmt.Sprintf("runtime error: index out of range [%d] with length %d", i, len(elems))))
		}
		return elems[i]
	}
	in := fr.i
	st := in.st
	t := in.convTerm(s.t, s.k, types.Int64)
	n := len(elems)
	if !fr.branch(st.Ult(t, st.Const(64, uint64(n)))) {
		panic(runtimeError(fmt.Sprintf("runtime error: index out of range [symbolic] with length %d", n)))
	}
	lo, hi := t.lo, t.hi
	if hi >= uint64(n) {
		hi = uint64(n - 1)
	}
	if lo > hi {
		lo = 0
	}
	// all candidates identical?
	same := true
	for i := lo + 1; i <= hi; i++ {
		if !identicalValue(elems[i], elems[lo]) {
			same = false
			break
		}
	}
	if same {
		return elems[lo]
	}
	k := kindOf(elems[lo])
	if hi-lo < 512 && k != types.Invalid {
		// ite chain
		acc := in.toTerm(elems[hi], k)
		for i := int64(hi) - 1; i >= int64(lo); i-- {
			if kindOf(elems[i]) != k {
				acc = nil
				break
			}
			acc = st.Ite(st.Eq(t, st.Const(64, uint64(i))), in.toTerm(elems[i], k), acc)
		}
		if acc != nil {
			return in.mkSym(acc, k)
		}
	}
	if v, ok := fr.tableAbstraction(elems, lo, hi, t, k); ok {
		return v
	}
	return elems[fr.concretize(s)]
}

// tableAbstraction over-approximates a read of a large constant integer
// table at a symbolic index: the result is a fresh variable constrained to
// the (at most 33) value intervals that cover the table's entries over the
// feasible index range.  The index-to-value relation is dropped, which is
// sound for "holds" verdicts; a counterexample that depends on it does not
// reproduce natively and is reported as inconclusive, never as a violation.
func (fr *frame) tableAbstraction(elems []value, lo, hi uint64, idx *Term, k types.BasicKind) (value, bool) {
	in := fr.i
	if k == types.Invalid || k == types.Bool || in.path == nil {
		return nil, false
	}
	w := kindWidth(k)
	mask := ^uint64(0)
	if w < 64 {
		mask = (uint64(1) << uint(w)) - 1
	}
	seen := map[uint64]bool{}
	var vals []uint64
	for i := lo; i <= hi; i++ {
		b, ok := intBits(elems[i])
		if !ok || kindOf(elems[i]) != k {
			return nil, false
		}
		u := uint64(b) & mask
		if !seen[u] {
			seen[u] = true
			vals = append(vals, u)
		}
	}
	sort.Slice(vals, func(a, b int) bool { return vals[a] < vals[b] })
	// cut at the 7 largest gaps
	type gap struct {
		at   int
		size uint64
	}
	var gaps []gap
	for i := 1; i < len(vals); i++ {
		if d := vals[i] - vals[i-1]; d > 1 {
			gaps = append(gaps, gap{i, d})
		}
	}
	sort.Slice(gaps, func(a, b int) bool { return gaps[a].size > gaps[b].size })
	if len(gaps) > 31 {
		gaps = gaps[:31]
	}
	cut := map[int]bool{}
	for _, g := range gaps {
		cut[g.at] = true
	}
	// zero is the usual "no entry" sentinel: always an interval of its own
	if len(vals) > 1 && vals[0] == 0 {
		cut[1] = true
	}
	p := in.path
	key := tblKey{&elems[0], idx.id}
	if p.tblVars == nil {
		p.tblVars = map[tblKey]*Term{}
	}
	st := in.st
	if v, ok := p.tblVars[key]; ok {
		return in.mkSym(v, k), true
	}
	v := st.Var(fmt.Sprintf("tbl!%d", len(p.tblVars)), w)
	p.tblVars[key] = v
	p.tblRecs = append(p.tblRecs, &tblRec{idx: idx, v: v, elems: elems, mask: mask, done: map[uint64]bool{}})
	cond := st.ff
	start := 0
	for i := 1; i <= len(vals); i++ {
		if i == len(vals) || cut[i] {
			a, b := vals[start], vals[i-1]
			cond = st.Or(cond, st.And(st.Ule(st.Const(w, a), v), st.Ule(v, st.Const(w, b))))
			start = i
		}
	}
	in.sv.Assert(cond)
	in.Stats.TableAbstractions++
	return in.mkSym(v, k), true
}

// tblRec remembers an abstracted table read for model refinement.
type tblRec struct {
	idx, v *Term
	elems  []value
	mask   uint64
	done   map[uint64]bool
}

type tblKey struct {
	base *value
	idx  int
}

func identicalValue(a, b value) bool {
	switch a := a.(type) {
	case symv:
		if bs, ok := b.(symv); ok {
			return a.t == bs.t && a.k == bs.k
		}
		return false
	case structure, array, []value, *symString, iface, *omap, tuple:
		return false
	}
	switch b.(type) {
	case symv, structure, array, []value, *symString, iface, *omap, tuple:
		return false
	}
	return a == b
}

// ---- assertions ----

func (in *Interp) fullModel() (map[string]int64, bool) {
	m, r := in.fullModelR()
	return m, r == Sat
}

// fullModelR checks the current solver state and returns a model of the
// path's variables.  Where table reads were abstracted on this path the model
// is refined first (counterexample-guided): for the index the model picks,
// the true table entry is asserted — (idx = i) => (v = table[i]) — and the
// query repeated, until the model agrees with the table on every read, the
// query becomes unsat (the candidate was an artefact of the abstraction), or
// the iteration bound is hit (the model is then reported as it is and has to
// survive native replay).  The added facts are true of the table, so they
// stay asserted in the caller's solver scope.
func (in *Interp) fullModelR() (map[string]int64, Result) {
	p := in.path
	r := in.sv.Check(in.cfg.AssertTimeoutMs)
	in.Stats.SolverQueries++
	if r != Sat {
		return nil, r
	}
	for iter := 0; iter < 64 && len(p.tblRecs) > 0; iter++ {
		vars := append([]*Term{}, p.vars...)
		seen := map[int]bool{}
		var walk func(t *Term)
		walk = func(t *Term) {
			if seen[t.id] {
				return
			}
			seen[t.id] = true
			if t.op == OpVar {
				vars = append(vars, t)
			}
			for _, a := range t.args {
				walk(a)
			}
		}
		for _, rec := range p.tblRecs {
			walk(rec.idx)
			walk(rec.v)
		}
		um := in.sv.Model(vars)
		memo := map[int]uint64{}
		refined := false
		for _, rec := range p.tblRecs {
			i := rec.idx.Eval(um, memo)
			if i >= uint64(len(rec.elems)) {
				continue
			}
			b, ok := intBits(rec.elems[i])
			if !ok {
				continue
			}
			want := uint64(b) & rec.mask
			if um[rec.v.name] == want || rec.done[i] {
				continue
			}
			rec.done[i] = true
			st := in.st
			fact := st.Or(st.Not(st.Eq(rec.idx, st.Const(rec.idx.w, i))), st.Eq(rec.v, st.Const(rec.v.w, want)))
			in.sv.Assert(fact)
			p.tblFacts = append(p.tblFacts, fact)
			in.Stats.TableRefinements++
			refined = true
		}
		if !refined {
			break
		}
		r = in.sv.Check(in.cfg.AssertTimeoutMs)
		in.Stats.SolverQueries++
		if r != Sat {
			return nil, r
		}
	}
	m := in.sv.Model(p.vars)
	out := map[string]int64{}
	for _, v := range p.vars {
		if strings.HasPrefix(v.name, "dig!") || strings.HasPrefix(v.name, "tbl!") {
			continue
		}
		k := p.varKinds[v.name]
		u := m[v.name]
		if k != types.Bool && kindSigned(k) {
			out[v.name] = sextTo64(u, v.w)
		} else {
			out[v.name] = int64(u)
		}
	}
	return out, Sat
}

func (in *Interp) mkViolation(fr *frame, id, msg string, model map[string]int64) *Violation {
	p := in.path
	v := &Violation{ID: id, Msg: msg, Model: model, Chooses: map[string]int{}, Notes: map[string]string{}, Params: in.cfg.Params}
	for k, x := range p.chooses {
		v.Chooses[k] = x
	}
	for k, x := range p.notes {
		v.Notes[k] = x
	}
	v.Labels = map[string]string{}
	for k, x := range p.labels {
		v.Labels[k] = x
	}
	for _, d := range p.decs[:p.pos] {
		v.Decisions = append(v.Decisions, d.alt)
	}
	if fr != nil {
		v.Stack = fr.stack()
	}
	for i, c := range p.pc {
		if i >= 40 {
			v.PathCond = append(v.PathCond, "…")
			break
		}
		s := c.String()
		if len(s) > 300 {
			s = s[:300] + "…"
		}
		v.PathCond = append(v.PathCond, s)
	}
	return v
}

// assert checks a property assertion.  Returns normally if it holds on
// every value of this path (or all violations are known findings).
func (fr *frame) assert(cond value, id string) {
	in := fr.i
	p := in.path
	p.asserts++
	var c *Term
	switch x := cond.(type) {
	case bool:
		c = in.st.Bool(x)
	case symv:
		c = x.t
	}
	if c == in.st.tt {
		p.unsatAsserts++
		return
	}
	if v, ok := p.lookupKnown(c); ok && v {
		p.unsatAsserts++
		return
	}
	neg := in.st.Not(c)
	in.linkAtoms(neg)
	in.sv.Push()
	in.sv.Assert(neg)
	t0 := time.Now()
	r := in.sv.Check(in.cfg.AssertTimeoutMs)
	in.Stats.SolverNs += time.Since(t0).Nanoseconds()
	in.Stats.SolverQueries++
	in.Stats.AssertQueries++
	if r == Unsat {
		in.Stats.Unsat++
		in.sv.Pop()
		if c == in.st.ff {
			// "false" cannot hold: the path condition itself is unsatisfiable
			// (facts learnt after a branch was taken, e.g. table refinement)
			panic(pathEnd{kind: "infeasible"})
		}
		p.unsatAsserts++
		in.assumeQuiet(c)
		return
	}
	if r == Unknown {
		in.Stats.Unknown++
		in.sv.Pop()
		inconclusive("solver unknown/timeout on assertion %s", id)
	}
	in.Stats.Sat++
	// violation candidate: exclude known findings
	kf := in.findingTerm(id)
	if kf != nil {
		in.sv.Assert(in.st.Not(kf))
		r2 := in.sv.Check(in.cfg.AssertTimeoutMs)
		in.Stats.SolverQueries++
		if r2 == Unsat {
			in.sv.Pop()
			in.noteKnownHits(id)
			// continue under the assertion if that is feasible
			if in.checkWith(c, in.cfg.FeasTimeoutMs) == Sat {
				in.assume(c)
				return
			}
			panic(pathEnd{kind: "known"})
		}
		if r2 == Unknown {
			in.sv.Pop()
			inconclusive("solver unknown on known-finding exclusion for %s", id)
		}
	}
	nfacts := len(p.tblFacts)
	model, mr := in.fullModelR()
	in.sv.Pop()
	// refinement facts are true of the tables: keep them on the path
	for _, f := range p.tblFacts[nfacts:] {
		in.sv.Assert(f)
	}
	if mr == Unsat && len(p.tblFacts) > nfacts {
		// the candidate existed only under the table abstraction; with the
		// true table entries the path itself may be gone
		pr := in.sv.Check(in.cfg.FeasTimeoutMs)
		in.Stats.SolverQueries++
		if pr == Unsat {
			panic(pathEnd{kind: "infeasible"})
		}
		if pr == Unknown {
			inconclusive("solver unknown after table refinement at assertion %s", id)
		}
		in.Stats.Unsat++
		p.unsatAsserts++
		in.assumeQuiet(c)
		return
	}
	if mr != Sat {
		inconclusive("could not extract model for violated assertion %s", id)
	}
	v := in.mkViolation(fr, id, "assertion violated", model)
	in.violations = append(in.violations, v)
	panic(pathEnd{kind: "violation", msg: id})
}

// assumeQuiet adds a proved fact to the known set without burdening the solver.
func (in *Interp) assumeQuiet(c *Term) {
	in.path.markKnown(c, true)
}

// outcomeViolation reports a violation that is a path outcome (panic, exit,
// budget) rather than a failed vrt.Assert.
func (in *Interp) outcomeViolation(id, msg string) bool {
	kf := in.findingTerm(id)
	if kf != nil {
		if in.checkWith(in.st.Not(kf), in.cfg.AssertTimeoutMs) == Unsat {
			in.noteKnownHits(id)
			return false
		}
		in.sv.Push()
		in.sv.Assert(in.st.Not(kf))
		defer in.sv.Pop()
	}
	model, mr := in.fullModelR()
	if mr == Unsat {
		// the path that ended this way is not feasible
		return false
	}
	if mr != Sat {
		model = map[string]int64{}
	}
	v := in.mkViolation(nil, id, msg, model)
	in.violations = append(in.violations, v)
	return true
}

func sortedKeys(m map[string]bool) []string {
	var ks []string
	for k := range m {
		ks = append(ks, k)
	}
	sort.Strings(ks)
	return ks
}
