// Portions adapted from golang.org/x/tools/go/ssa/interp (interp.go).
// Copyright 2013 The Go Authors. All rights reserved.
// Use of this source code is governed by a BSD-style license.

package gosym

import (
	"fmt"
	"go/token"
	"go/types"
	"os"
	"runtime"
	"sort"
	"strings"

	"golang.org/x/tools/go/ssa"
)

var profileSteps = os.Getenv("GOSYM_PROFILE") != ""

var debugPanics = os.Getenv("GOSYM_DEBUG_PANIC") != ""

type continuation int

const (
	kNext continuation = iota
	kReturn
	kJump
)

type undoRec struct {
	addr *value
	old  value
	fn   func()
}

// Interp is one interpreter instance (one worker).  Instances share the
// immutable ssa.Program and nothing else.
type Interp struct {
	// Stop, when set to non-zero by the driver of several interpreters, makes
	// the current cell end at the next path boundary
	Stop *int32

	prog    *ssa.Program
	globals map[*ssa.Global]*value
	fninfo  map[*ssa.Function]*fnInfo
	sizes   types.Sizes
	st      *Store
	sv      *Solver
	cfg     *Config

	runtimeErrorString types.Type
	errorStringPtr     types.Type // *errors.errorString
	inited             map[*ssa.Package]bool

	undo     []undoRec
	undoOn   bool
	path     *pathState
	steps    int64
	maxSteps int64
	depth    int

	env *envModel // file system, diagnostics, args...

	Stats Stats
	trace bool

	violations     []*Violation
	abortStack     string
	onceCache      map[string]value
	cellUndo       []undoRec
	panicSeen      map[string]bool
	violationsMark int
}

type Stats struct {
	Paths, Branches, SolverQueries, Unsat, Sat, Unknown int64
	AssertQueries, DigitBoundPruned, AtomLinks          int64
	TableAbstractions, TableRefinements                 int64
	SolverNs                                            int64
	Steps                                               int64
	Funcs                                               map[string]bool
}

func (in *Interp) logUndo(fn func()) {
	in.undo = append(in.undo, undoRec{fn: fn})
}

func (in *Interp) rollback(mark int) {
	for i := len(in.undo) - 1; i >= mark; i-- {
		u := &in.undo[i]
		if u.fn != nil {
			u.fn()
		} else {
			*u.addr = u.old
		}
		in.undo[i] = undoRec{}
	}
	in.undo = in.undo[:mark]
}

// lazyElem is the address of an element selected by a symbolic index, valid
// only as the operand of the load it is fused with.
type lazyElem struct {
	elems []value
	idx   value
}

type deferred struct {
	fn    value
	args  []value
	instr *ssa.Defer
	tail  *deferred
}

type operand struct {
	reg int // >= 0: register; -1: constant in val
	val value
}

type cinstr struct {
	instr   ssa.Instruction
	dst     int
	a, b, c operand
	rest    []operand
	typ     types.Type // cached type info (instruction dependent)
	typ2    types.Type
	fused   bool
}

type phiInfo struct {
	dst   int
	edges []operand
}

type blockInfo struct {
	phis   []phiInfo
	instrs []cinstr
}

type fnInfo struct {
	fn                     *ssa.Function
	nregs                  int
	blocks                 []*blockInfo
	params                 []int
	freevars               []int
	locals                 []int
	localTyps              []types.Type
	intrinsic              intrinsicFn
	name                   string
	seen                   bool
	isPkgInit, initAllowed bool
	steps                  int64
}

type frame struct {
	i                *Interp
	caller           *frame
	fn               *ssa.Function
	info             *fnInfo
	block, prevBlock *ssa.BasicBlock
	regs             []value
	defers           *deferred
	result           value
	panicking        bool
	panic            interface{}
	phitemps         []value
	callpos          token.Pos
	cur              *cinstr
}

func (fr *frame) get(o operand) value {
	if o.reg >= 0 {
		return fr.regs[o.reg]
	}
	return o.val
}

// ---- compilation of ssa.Function to register form ----

func (in *Interp) info(fn *ssa.Function) *fnInfo {
	if fi, ok := in.fninfo[fn]; ok {
		return fi
	}
	fi := &fnInfo{fn: fn, name: fn.String()}
	in.fninfo[fn] = fi
	if fn.Pkg != nil && fn.Name() == "init" && fn.Synthetic != "" && fn.Pkg.Func("init") == fn {
		fi.isPkgInit = true
		fi.initAllowed = shouldInit(fn.Pkg.Pkg.Path())
	}
	if fn.Parent() == nil || true {
		fi.intrinsic = lookupIntrinsic(fn, fi.name)
	}
	if fn.Blocks == nil {
		return fi
	}
	regs := make(map[ssa.Value]int)
	newReg := func(v ssa.Value) int {
		r := len(regs)
		regs[v] = r
		return r
	}
	for _, p := range fn.Params {
		fi.params = append(fi.params, newReg(p))
	}
	for _, fv := range fn.FreeVars {
		fi.freevars = append(fi.freevars, newReg(fv))
	}
	for _, l := range fn.Locals {
		fi.locals = append(fi.locals, newReg(l))
		fi.localTyps = append(fi.localTyps, deref(l.Type()))
	}
	for _, b := range fn.Blocks {
		for _, instr := range b.Instrs {
			if v, ok := instr.(ssa.Value); ok {
				if _, done := regs[v]; !done {
					newReg(v)
				}
			}
		}
	}
	fi.nregs = len(regs)
	op := func(v ssa.Value) operand {
		switch v := v.(type) {
		case nil:
			return operand{reg: -1, val: nil}
		case *ssa.Function:
			return operand{reg: -1, val: v}
		case *ssa.Builtin:
			return operand{reg: -1, val: v}
		case *ssa.Const:
			return operand{reg: -1, val: constValue(v)}
		case *ssa.Global:
			g, ok := in.globals[v]
			if !ok {
				panic("no global " + v.String())
			}
			return operand{reg: -1, val: g}
		}
		r, ok := regs[v]
		if !ok {
			panic(fmt.Sprintf("compile %s: no register for %T %s", fn, v, v.Name()))
		}
		return operand{reg: r}
	}
	callOps := func(c *ssa.CallCommon) []operand {
		var out []operand
		out = append(out, op(c.Value))
		for _, a := range c.Args {
			out = append(out, op(a))
		}
		return out
	}
	fi.blocks = make([]*blockInfo, len(fn.Blocks))
	for bi, b := range fn.Blocks {
		blk := &blockInfo{}
		fi.blocks[bi] = blk
		for _, instr := range b.Instrs {
			ci := cinstr{instr: instr, dst: -1}
			if v, ok := instr.(ssa.Value); ok {
				ci.dst = regs[v]
			}
			switch x := instr.(type) {
			case *ssa.Phi:
				ph := phiInfo{dst: regs[x]}
				for _, e := range x.Edges {
					ph.edges = append(ph.edges, op(e))
				}
				blk.phis = append(blk.phis, ph)
				continue
			case *ssa.DebugRef:
				continue
			case *ssa.UnOp:
				ci.a = op(x.X)
			case *ssa.BinOp:
				ci.a, ci.b = op(x.X), op(x.Y)
				ci.typ = x.X.Type()
			case *ssa.Call:
				ci.rest = callOps(&x.Call)
			case *ssa.Defer:
				ci.rest = callOps(&x.Call)
				ci.a = op(x.DeferStack)
			case *ssa.Go:
				ci.rest = callOps(&x.Call)
			case *ssa.ChangeInterface:
				ci.a = op(x.X)
			case *ssa.ChangeType:
				ci.a = op(x.X)
			case *ssa.Convert:
				ci.a = op(x.X)
			case *ssa.MultiConvert:
				ci.a = op(x.X)
			case *ssa.SliceToArrayPointer:
				ci.a = op(x.X)
			case *ssa.MakeInterface:
				ci.a = op(x.X)
			case *ssa.Extract:
				ci.a = op(x.Tuple)
			case *ssa.Slice:
				ci.a = op(x.X)
				ci.rest = []operand{op(x.Low), op(x.High), op(x.Max)}
			case *ssa.Return:
				for _, r := range x.Results {
					ci.rest = append(ci.rest, op(r))
				}
			case *ssa.RunDefers:
			case *ssa.Panic:
				ci.a = op(x.X)
			case *ssa.Send:
				ci.a, ci.b = op(x.Chan), op(x.X)
			case *ssa.Store:
				ci.a, ci.b = op(x.Addr), op(x.Val)
				ci.typ = deref(x.Addr.Type())
			case *ssa.If:
				ci.a = op(x.Cond)
			case *ssa.Jump:
			case *ssa.MakeChan:
				ci.a = op(x.Size)
			case *ssa.Alloc:
				ci.typ = deref(x.Type())
			case *ssa.MakeSlice:
				ci.a, ci.b = op(x.Len), op(x.Cap)
			case *ssa.MakeMap:
				ci.a = op(x.Reserve)
			case *ssa.Range:
				ci.a = op(x.X)
			case *ssa.Next:
				ci.a = op(x.Iter)
			case *ssa.FieldAddr:
				ci.a = op(x.X)
			case *ssa.Field:
				ci.a = op(x.X)
			case *ssa.IndexAddr:
				ci.a, ci.b = op(x.X), op(x.Index)
				// fuse "load of indexed element" so that a symbolic index can be
				// answered by selection instead of concretisation
				if refs := x.Referrers(); refs != nil && len(*refs) == 1 {
					if u, ok := (*refs)[0].(*ssa.UnOp); ok && u.Op == token.MUL {
						ci.fused = true
					}
				}
			case *ssa.Index:
				ci.a, ci.b = op(x.X), op(x.Index)
			case *ssa.Lookup:
				ci.a, ci.b = op(x.X), op(x.Index)
			case *ssa.MapUpdate:
				ci.a, ci.b, ci.c = op(x.Map), op(x.Key), op(x.Value)
			case *ssa.TypeAssert:
				ci.a = op(x.X)
			case *ssa.MakeClosure:
				ci.a = op(x.Fn)
				for _, bnd := range x.Bindings {
					ci.rest = append(ci.rest, op(bnd))
				}
			case *ssa.Select:
				// unsupported; reported when executed
			default:
				panic(fmt.Sprintf("compile: unexpected instruction %T", instr))
			}
			blk.instrs = append(blk.instrs, ci)
		}
	}
	return fi
}

// ---- defers / panics ----

// engineAbort reports whether p is an engine-level control transfer that
// target-level recover() must never see.
func engineAbort(p interface{}) bool {
	switch p.(type) {
	case Inconclusive, pathEnd, exitPanic:
		return true
	case string:
		// engine-internal consistency panics are never target panics
		return true
	case runtime.Error:
		if _, ok := p.(*runtime.TypeAssertionError); ok {
			return true
		}
	}
	return false
}

func (fr *frame) runDefer(d *deferred) {
	var ok bool
	defer func() {
		if !ok {
			p := recover()
			if engineAbort(p) {
				panic(p)
			}
			fr.panicking = true
			fr.panic = p
		}
	}()
	fr.i.call(fr, d.instr.Pos(), d.fn, d.args)
	ok = true
}

func (fr *frame) runDefers() {
	for d := fr.defers; d != nil; d = d.tail {
		fr.runDefer(d)
	}
	fr.defers = nil
	if fr.panicking {
		panic(fr.panic)
	}
}

func (in *Interp) lookupMethod(typ types.Type, meth *types.Func) *ssa.Function {
	return in.prog.LookupMethod(typ, meth.Pkg(), meth.Name())
}

func (fr *frame) set(ci *cinstr, v value) {
	fr.regs[ci.dst] = v
}

func (fr *frame) visitInstr(ci *cinstr) continuation {
	in := fr.i
	switch instr := ci.instr.(type) {
	case *ssa.UnOp:
		fr.set(ci, fr.unop(instr, fr.get(ci.a)))

	case *ssa.BinOp:
		fr.set(ci, fr.binop(instr.Op, ci.typ, fr.get(ci.a), fr.get(ci.b)))

	case *ssa.Call:
		fn, args := fr.prepareCall(&instr.Call, ci)
		fr.set(ci, in.call(fr, instr.Pos(), fn, args))

	case *ssa.ChangeInterface:
		fr.set(ci, fr.get(ci.a))

	case *ssa.ChangeType:
		fr.set(ci, fr.get(ci.a))

	case *ssa.Convert:
		fr.set(ci, fr.conv(instr.Type(), instr.X.Type(), fr.get(ci.a)))

	case *ssa.MultiConvert:
		fr.set(ci, fr.conv(instr.Type(), instr.X.Type(), fr.get(ci.a)))

	case *ssa.SliceToArrayPointer:
		x := fr.get(ci.a).([]value)
		arr := instr.Type().Underlying().(*types.Pointer).Elem().Underlying().(*types.Array)
		if arr.Len() > int64(len(x)) {
			panic(runtimeError("runtime error: cannot convert slice to array pointer: length mismatch"))
		}
		if x == nil {
			fr.set(ci, zero(instr.Type()))
		} else {
			v := value(array(x[:arr.Len()]))
			fr.set(ci, &v)
		}

	case *ssa.MakeInterface:
		fr.set(ci, iface{t: instr.X.Type(), v: fr.get(ci.a)})

	case *ssa.Extract:
		fr.set(ci, fr.get(ci.a).(tuple)[instr.Index])

	case *ssa.Slice:
		fr.set(ci, fr.slice(fr.get(ci.a), fr.get(ci.rest[0]), fr.get(ci.rest[1]), fr.get(ci.rest[2])))

	case *ssa.Return:
		switch len(ci.rest) {
		case 0:
		case 1:
			fr.result = fr.get(ci.rest[0])
		default:
			res := make(tuple, len(ci.rest))
			for i, r := range ci.rest {
				res[i] = fr.get(r)
			}
			fr.result = res
		}
		fr.block = nil
		return kReturn

	case *ssa.RunDefers:
		fr.runDefers()

	case *ssa.Panic:
		panic(targetPanic{fr.get(ci.a)})

	case *ssa.Send:
		inconclusive("channel send")

	case *ssa.Store:
		addr := fr.get(ci.a).(*value)
		if addr == nil {
			panic(runtimeError("runtime error: invalid memory address or nil pointer dereference"))
		}
		in.store(ci.typ, addr, fr.get(ci.b))

	case *ssa.If:
		succ := 1
		switch c := fr.get(ci.a).(type) {
		case bool:
			if c {
				succ = 0
			}
		case symv:
			if fr.branch(c.t) {
				succ = 0
			}
		default:
			panic(fmt.Sprintf("If on %T", c))
		}
		fr.prevBlock, fr.block = fr.block, fr.block.Succs[succ]
		return kJump

	case *ssa.Jump:
		fr.prevBlock, fr.block = fr.block, fr.block.Succs[0]
		return kJump

	case *ssa.Defer:
		fn, args := fr.prepareCall(&instr.Call, ci)
		defers := &fr.defers
		if into := fr.get(ci.a); into != nil {
			defers = into.(**deferred)
		}
		*defers = &deferred{fn: fn, args: args, instr: instr, tail: *defers}

	case *ssa.Go:
		inconclusive("go statement in %s", fr.fn)

	case *ssa.MakeChan:
		fr.set(ci, &native{kind: "chan"})

	case *ssa.Alloc:
		var addr *value
		if instr.Heap {
			addr = new(value)
			fr.set(ci, addr)
		} else {
			addr = fr.regs[ci.dst].(*value)
		}
		*addr = zero(ci.typ)

	case *ssa.MakeSlice:
		n := fr.concreteInt(fr.get(ci.a))
		c := fr.concreteInt(fr.get(ci.b))
		if n < 0 || c < n || c > 1<<28 {
			panic(runtimeError("runtime error: makeslice: len out of range"))
		}
		sl := make([]value, c)
		tElt := instr.Type().Underlying().(*types.Slice).Elem()
		z := zero(tElt)
		switch z.(type) {
		case structure, array:
			for i := range sl {
				sl[i] = zero(tElt)
			}
		default:
			for i := range sl {
				sl[i] = z
			}
		}
		fr.set(ci, sl[:n])

	case *ssa.MakeMap:
		fr.set(ci, makeMap(instr.Type().Underlying().(*types.Map).Key(), 0))

	case *ssa.Range:
		fr.set(ci, fr.rangeIter(fr.get(ci.a), instr.X.Type()))

	case *ssa.Next:
		fr.set(ci, fr.get(ci.a).(iter).next(fr))

	case *ssa.FieldAddr:
		p := fr.get(ci.a).(*value)
		if p == nil {
			panic(runtimeError("runtime error: invalid memory address or nil pointer dereference"))
		}
		fr.set(ci, &(*p).(structure)[instr.Field])

	case *ssa.Field:
		fr.set(ci, fr.get(ci.a).(structure)[instr.Field])

	case *ssa.IndexAddr:
		x := fr.get(ci.a)
		idx := fr.get(ci.b)
		if _, isSym := idx.(symv); isSym && ci.fused {
			switch x := x.(type) {
			case []value:
				fr.set(ci, lazyElem{x, idx})
				return kNext
			case *value:
				if x != nil {
					fr.set(ci, lazyElem{[]value((*x).(array)), idx})
					return kNext
				}
			}
		}
		switch x := x.(type) {
		case []value:
			i := fr.concreteIndex(idx, len(x))
			fr.set(ci, &x[i])
		case *value: // *array
			if x == nil {
				panic(runtimeError("runtime error: invalid memory address or nil pointer dereference"))
			}
			a := (*x).(array)
			i := fr.concreteIndex(idx, len(a))
			fr.set(ci, &a[i])
		default:
			panic(fmt.Sprintf("unexpected x type in IndexAddr: %T", x))
		}

	case *ssa.Index:
		x := fr.get(ci.a)
		idx := fr.get(ci.b)
		switch x := x.(type) {
		case array:
			fr.set(ci, fr.indexValue([]value(x), idx))
		case string:
			if s, ok := idx.(symv); ok {
				fr.set(ci, fr.indexValue(strToSym(x).b, s))
			} else {
				i := asInt64(idx)
				if i < 0 || i >= int64(len(x)) {
					panic(runtimeError(fmt.Sprintf("runtime error: index out of range [%d] with length %d", i, len(x))))
				}
				fr.set(ci, x[i])
			}
		case *symString:
			fr.set(ci, fr.indexValue(x.b, idx))
		default:
			panic(fmt.Sprintf("unexpected x type in Index: %T", x))
		}

	case *ssa.Lookup:
		fr.set(ci, fr.lookup(instr, fr.get(ci.a), fr.get(ci.b)))

	case *ssa.MapUpdate:
		m := fr.get(ci.a).(*omap)
		key := fr.mapKey(fr.get(ci.b))
		m.insert(in, key, fr.get(ci.c))

	case *ssa.TypeAssert:
		fr.set(ci, fr.typeAssert(instr, fr.get(ci.a).(iface)))

	case *ssa.MakeClosure:
		bindings := make([]value, len(ci.rest))
		for i, b := range ci.rest {
			bindings[i] = fr.get(b)
		}
		fr.set(ci, &closure{instr.Fn.(*ssa.Function), bindings})

	case *ssa.Select:
		inconclusive("select statement")

	default:
		panic(fmt.Sprintf("unexpected instruction: %T", instr))
	}
	return kNext
}

// mapLookup looks idx up in m.  A symbolic key is compared with each
// present key (forking only where interval facts cannot decide), instead of
// being concretised.
func (fr *frame) mapLookup(m *omap, idx value) (value, bool) {
	switch k := idx.(type) {
	case *symString, symv:
		if m == nil {
			return nil, false
		}
		for i := range m.keys {
			if !m.live[i] {
				continue
			}
			b, t := fr.eqv(m.keyType, k, m.keys[i])
			if t != nil {
				b = fr.branch(t)
			}
			if b {
				return m.vals[i], true
			}
		}
		return nil, false
	}
	return m.lookup(fr.mapKey(idx))
}

// mapKey normalises a map key (symbolic keys must be concretised).
func (fr *frame) mapKey(k value) value {
	switch k := k.(type) {
	case symv:
		return mkInt(k.k, uint64(fr.concretize(k)))
	case *symString:
		return fr.concretizeString(k)
	case structure, array:
		return copyVal(k)
	}
	return k
}

func (fr *frame) lookup(instr *ssa.Lookup, x, idx value) value {
	switch x := x.(type) {
	case *omap:
		v, ok := fr.mapLookup(x, idx)
		if !ok {
			v = zero(instr.X.Type().Underlying().(*types.Map).Elem())
		}
		if instr.CommaOk {
			return tuple{v, ok}
		}
		return v
	case string:
		if s, ok := idx.(symv); ok {
			return fr.indexValue(strToSym(x).b, s)
		}
		return x[asInt64(idx)]
	case *symString:
		return fr.indexValue(x.b, idx)
	}
	panic(fmt.Sprintf("unexpected x type in Lookup: %T", x))
}

func (fr *frame) prepareCall(call *ssa.CallCommon, ci *cinstr) (fn value, args []value) {
	v := fr.get(ci.rest[0])
	if call.Method == nil {
		fn = v
		args = make([]value, 0, len(ci.rest)-1)
	} else {
		recv := v.(iface)
		if recv.t == nil {
			panic(runtimeError("runtime error: invalid memory address or nil pointer dereference (method invoked on nil interface)"))
		}
		f := fr.i.lookupMethod(recv.t, call.Method)
		if f == nil {
			panic(fmt.Sprintf("method set for dynamic type %v does not contain %s", recv.t, call.Method))
		}
		fn = f
		args = make([]value, 0, len(ci.rest))
		args = append(args, recv.v)
	}
	for _, a := range ci.rest[1:] {
		args = append(args, fr.get(a))
	}
	return
}

func (in *Interp) call(caller *frame, callpos token.Pos, fn value, args []value) value {
	switch fn := fn.(type) {
	case *ssa.Function:
		if fn == nil {
			panic(runtimeError("runtime error: invalid memory address or nil pointer dereference (call of nil function)"))
		}
		return in.callSSA(caller, callpos, fn, args, nil)
	case *closure:
		return in.callSSA(caller, callpos, fn.Fn, args, fn.Env)
	case *ssa.Builtin:
		return caller.callBuiltin(callpos, fn, args)
	}
	panic(fmt.Sprintf("cannot call %T", fn))
}

func (in *Interp) callSSA(caller *frame, callpos token.Pos, fn *ssa.Function, args []value, env []value) value {
	fi := in.info(fn)
	if fi.isPkgInit && !fi.initAllowed {
		return nil
	}
	fr := &frame{i: in, caller: caller, fn: fn, info: fi, callpos: callpos}
	if fi.intrinsic != nil {
		if res, ok := fi.intrinsic(fr, args); ok {
			return res
		}
	}
	if fn.Blocks == nil {
		inconclusive("no code for function %s (no model registered)", fi.name)
	}
	if fn.TypeParams().Len() > 0 && len(fn.TypeArgs()) == 0 {
		panic("generic function body executed: " + fi.name)
	}
	if !fi.seen {
		fi.seen = true
		if in.Stats.Funcs != nil && in.undoOn {
			in.Stats.Funcs[fi.name] = true
		}
	}
	in.depth++
	if in.depth > 5000 {
		in.depth = 0
		panic(pathEnd{kind: "budget", msg: "call depth exceeded 5000 in " + fi.name})
	}
	fr.regs = make([]value, fi.nregs)
	fr.block = fn.Blocks[0]
	for i, r := range fi.locals {
		cell := new(value)
		*cell = zero(fi.localTyps[i])
		fr.regs[r] = cell
	}
	for i, r := range fi.params {
		fr.regs[r] = args[i]
	}
	for i, r := range fi.freevars {
		fr.regs[r] = env[i]
	}
	if in.trace {
		fmt.Fprintf(os.Stderr, "%*sEntering %s\n", in.depth, "", fi.name)
	}
	for fr.block != nil {
		fr.runFrame()
	}
	in.depth--
	return fr.result
}

func (fr *frame) runFrame() {
	defer func() {
		if fr.block == nil {
			return // normal return
		}
		p := recover()
		if engineAbort(p) {
			if fr.i.abortStack == "" {
				fr.i.abortStack = fr.stackAt()
			}
			panic(p)
		}
		fr.panicking = true
		fr.panic = p
		if debugPanics && !fr.i.panicSeen[fmt.Sprint(p)] {
			fr.i.panicSeen[fmt.Sprint(p)] = true
			fmt.Fprintf(os.Stderr, "DEBUG target panic: %s\n%s\n", describePanic(p), fr.stackAt())
		}
		if fr.i.trace {
			fmt.Fprintf(os.Stderr, "Panicking in %s: %T %v\n", fr.fn, p, p)
		}
		fr.i.depth = fr.depthOf()
		fr.runDefers()
		fr.block = fr.fn.Recover
		if fr.block == nil {
			// recovered in a function without named results: zero result
			fr.result = zeroResult(fr.fn)
		}
	}()

	in := fr.i
	for {
		blk := fr.info.blocks[fr.block.Index]
		if len(blk.phis) > 0 {
			predIndex := -1
			for i, p := range fr.block.Preds {
				if p == fr.prevBlock {
					predIndex = i
					break
				}
			}
			fr.phitemps = fr.phitemps[:0]
			for i := range blk.phis {
				fr.phitemps = append(fr.phitemps, fr.get(blk.phis[i].edges[predIndex]))
			}
			for i := range blk.phis {
				fr.regs[blk.phis[i].dst] = fr.phitemps[i]
			}
		}
		in.steps += int64(len(blk.instrs))
		if profileSteps {
			fr.info.steps += int64(len(blk.instrs))
		}
		if in.steps > in.maxSteps {
			panic(pathEnd{kind: "budget", msg: fmt.Sprintf("step budget of %d SSA instructions exhausted in %s", in.maxSteps, fr.fn)})
		}
		instrs := blk.instrs
		var k continuation
		for i := range instrs {
			fr.cur = &instrs[i]
			k = fr.visitInstr(&instrs[i])
			if k != kNext {
				break
			}
		}
		if k == kReturn {
			return
		}
	}
}

func (fr *frame) depthOf() int {
	d := 0
	for f := fr; f != nil; f = f.caller {
		d++
	}
	return d
}

func zeroResult(fn *ssa.Function) value {
	res := fn.Signature.Results()
	switch res.Len() {
	case 0:
		return nil
	case 1:
		return zero(res.At(0).Type())
	}
	return zero(res)
}

// doRecover implements the recover() built-in.
func doRecover(caller *frame) value {
	if caller != nil && !caller.panicking &&
		caller.caller != nil && caller.caller.panicking {
		caller.caller.panicking = false
		p := caller.caller.panic
		caller.caller.panic = nil
		in := caller.i
		switch p := p.(type) {
		case targetPanic:
			return p.v
		case runtimeError:
			return iface{in.runtimeErrorString, string(p)}
		case runtime.Error:
			return iface{in.runtimeErrorString, p.Error()}
		case string:
			return iface{in.runtimeErrorString, p}
		default:
			panic(fmt.Sprintf("unexpected panic type %T in target call to recover()", p))
		}
	}
	return iface{}
}

func describePanic(p interface{}) string {
	switch p := p.(type) {
	case targetPanic:
		s := toString(p.v)
		if len(s) > 300 {
			s = s[:300]
		}
		return "panic: " + s
	case runtimeError:
		return "panic: " + string(p)
	case runtime.Error:
		return "panic: " + p.Error()
	case string:
		return "panic: " + p
	}
	return fmt.Sprintf("panic: %T %v", p, p)
}

func posString(prog *ssa.Program, pos token.Pos) string {
	if pos == token.NoPos {
		return "?"
	}
	p := prog.Fset.Position(pos)
	f := p.Filename
	if i := strings.LastIndex(f, "/"); i >= 0 {
		f = f[i+1:]
	}
	return fmt.Sprintf("%s:%d", f, p.Line)
}

func (fr *frame) stackAt() string {
	var sb strings.Builder
	for f := fr; f != nil; f = f.caller {
		at := "?"
		if f.cur != nil {
			at = posString(f.i.prog, f.cur.instr.Pos()) + " " + f.cur.instr.String()
		}
		fmt.Fprintf(&sb, "  %s @ %s\n", f.fn, at)
	}
	return sb.String()
}

func (fr *frame) stack() string {
	var sb strings.Builder
	for f := fr; f != nil; f = f.caller {
		fmt.Fprintf(&sb, "  %s (called at %s)\n", f.fn, posString(f.i.prog, f.callpos))
	}
	return sb.String()
}

// DumpProfile prints the functions with the most interpreted instructions.
func (in *Interp) DumpProfile(n int) {
	type e struct {
		name  string
		steps int64
	}
	var es []e
	var total int64
	for _, fi := range in.fninfo {
		if fi.steps > 0 {
			es = append(es, e{fi.name, fi.steps})
			total += fi.steps
		}
	}
	sort.Slice(es, func(i, j int) bool { return es[i].steps > es[j].steps })
	for i, x := range es {
		if i >= n {
			break
		}
		fmt.Fprintf(os.Stderr, "%10d %5.1f%% %s\n", x.steps, 100*float64(x.steps)/float64(total), x.name)
	}
}
