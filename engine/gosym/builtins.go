// Portions adapted from golang.org/x/tools/go/ssa/interp (ops.go).
// Copyright 2013 The Go Authors. All rights reserved.
// Use of this source code is governed by a BSD-style license.

package gosym

import (
	"fmt"
	"go/token"
	"go/types"
	"os"
	"unicode/utf8"

	"golang.org/x/tools/go/ssa"
)

func (fr *frame) callBuiltin(callpos token.Pos, fn *ssa.Builtin, args []value) value {
	in := fr.i
	switch fn.Name() {
	case "append":
		if len(args) == 1 {
			return args[0]
		}
		arg0 := args[0].([]value)
		var src []value
		deep := false
		switch s := args[1].(type) {
		case string:
			src = strToSym(s).b
		case *symString:
			src = s.b
		case []value:
			src = s
			if len(src) > 0 {
				switch src[0].(type) {
				case structure, array:
					deep = true
				}
			}
		}
		if len(src) == 0 {
			return arg0
		}
		need := len(arg0) + len(src)
		if need > cap(arg0) {
			// grow: spare capacity is filled with typed zero values so that
			// reslicing up to cap exposes proper zeros (as in Go)
			newcap := 2 * cap(arg0)
			if newcap < need {
				newcap = need
			}
			if newcap < 4 {
				newcap = 4
			}
			ns := make([]value, newcap)
			copy(ns, arg0)
			var elemT types.Type
			if sig, ok := fn.Type().(*types.Signature); ok && sig.Params().Len() > 0 {
				if st, ok := sig.Params().At(0).Type().Underlying().(*types.Slice); ok {
					elemT = st.Elem()
				}
			}
			if elemT != nil {
				z := zero(elemT)
				_, isS := z.(structure)
				_, isA := z.(array)
				for i := need; i < newcap; i++ {
					if isS || isA {
						ns[i] = zero(elemT)
					} else {
						ns[i] = z
					}
				}
			}
			arg0 = ns[:len(arg0)]
		} else {
			// in-place append writes into shared backing store: log for undo
			for i := len(arg0); i < need; i++ {
				in.undo = append(in.undo, undoRec{addr: &arg0[:need][i], old: arg0[:need][i]})
			}
		}
		base := len(arg0)
		arg0 = arg0[:need]
		for i, e := range src {
			if deep {
				arg0[base+i] = copyVal(e)
			} else {
				arg0[base+i] = e
			}
		}
		return arg0

	case "copy": // copy([]T, []T) int or copy([]byte, string) int
		dst := args[0].([]value)
		var src []value
		switch s := args[1].(type) {
		case string:
			src = strToSym(s).b
		case *symString:
			src = s.b
		case []value:
			src = s
		}
		n := len(dst)
		if len(src) < n {
			n = len(src)
		}
		// overlapping copy semantics: use temp
		tmp := make([]value, n)
		for i := 0; i < n; i++ {
			tmp[i] = copyVal(src[i])
		}
		for i := 0; i < n; i++ {
			in.undo = append(in.undo, undoRec{addr: &dst[i], old: dst[i]})
			dst[i] = tmp[i]
		}
		return n

	case "close":
		return nil

	case "delete":
		m := args[0].(*omap)
		m.delete(in, fr.mapKey(args[1]))
		return nil

	case "clear":
		switch m := args[0].(type) {
		case *omap:
			if m != nil {
				for i := range m.keys {
					if m.live[i] {
						m.delete(in, m.keys[i])
					}
				}
			}
		case []value:
			if len(m) > 0 {
				var et types.Type
				if sig, ok := fn.Type().(*types.Signature); ok && sig.Params().Len() == 1 {
					if st, ok := sig.Params().At(0).Type().Underlying().(*types.Slice); ok {
						et = st.Elem()
					}
				}
				if et == nil {
					inconclusive("clear on slice of unknown element type")
				}
				for i := range m {
					in.undo = append(in.undo, undoRec{addr: &m[i], old: m[i]})
					m[i] = zero(et)
				}
			}
		}
		return nil

	case "print", "println":
		if in.trace {
			for _, a := range args {
				fmt.Fprint(os.Stderr, toString(a), " ")
			}
			fmt.Fprintln(os.Stderr)
		}
		return nil

	case "len":
		switch x := args[0].(type) {
		case string:
			return len(x)
		case *symString:
			return len(x.b)
		case array:
			return len(x)
		case *value:
			if x == nil {
				// len of nil *array: static length
				panic(runtimeError("len of nil array pointer"))
			}
			return len((*x).(array))
		case []value:
			return len(x)
		case *omap:
			return x.len()
		case *native:
			return 0
		default:
			panic(fmt.Sprintf("len: illegal operand: %T", x))
		}

	case "cap":
		switch x := args[0].(type) {
		case array:
			return cap(x)
		case *value:
			return cap((*x).(array))
		case []value:
			return cap(x)
		case *native:
			return 0
		default:
			panic(fmt.Sprintf("cap: illegal operand: %T", x))
		}

	case "min":
		x := args[0]
		for _, a := range args[1:] {
			lt := fr.binop(token.LSS, nil, a, x)
			switch lt := lt.(type) {
			case bool:
				if lt {
					x = a
				}
			case symv:
				if fr.branch(lt.t) {
					x = a
				}
			}
		}
		return x
	case "max":
		x := args[0]
		for _, a := range args[1:] {
			gt := fr.binop(token.GTR, nil, a, x)
			switch gt := gt.(type) {
			case bool:
				if gt {
					x = a
				}
			case symv:
				if fr.branch(gt.t) {
					x = a
				}
			}
		}
		return x

	case "panic":
		panic(targetPanic{args[0]})

	case "recover":
		return doRecover(fr)

	case "ssa:wrapnilchk":
		recv := args[0]
		if p, ok := recv.(*value); ok && p == nil {
			panic(runtimeError(fmt.Sprintf("value method %s.%s called using nil pointer", toString(args[1]), toString(args[2]))))
		}
		return recv

	case "ssa:deferstack":
		return &fr.defers

	// unsafe builtins used by strings.Builder etc.
	case "String": // unsafe.String(ptr, len)
		n := fr.concreteInt(args[1])
		switch p := args[0].(type) {
		case []value:
			cp := make([]value, n)
			copy(cp, p[:n])
			return normStr(cp)
		case *value:
			if p == nil || n == 0 {
				return ""
			}
		}
		if n == 0 {
			return ""
		}
		inconclusive("unsafe.String on %T", args[0])
	case "SliceData": // unsafe.SliceData(slice) -> we return the slice itself as a pseudo pointer
		return args[0]
	case "StringData":
		switch s := args[0].(type) {
		case string:
			return strToSym(s).b
		case *symString:
			return s.b
		}
	case "Slice": // unsafe.Slice(ptr, len)
		n := fr.concreteInt(args[1])
		if sl, ok := args[0].([]value); ok {
			return sl[:n:n]
		}
		inconclusive("unsafe.Slice on %T", args[0])
	}
	inconclusive("unknown built-in: %s", fn.Name())
	return nil
}

// ---- iterators ----

type stringIter struct {
	b []value
	i int
}

func (it *stringIter) next(fr *frame) tuple {
	if it.i >= len(it.b) {
		return tuple{false, nil, nil}
	}
	start := it.i
	e := it.b[it.i]
	if s, ok := e.(symv); ok {
		it.i++
		return tuple{true, start, fr.byteToRune(s)}
	}
	c := e.(uint8)
	if c < utf8.RuneSelf {
		it.i++
		return tuple{true, start, int32(c)}
	}
	// multi-byte: gather concrete bytes
	var buf [4]byte
	n := 0
	for j := it.i; j < len(it.b) && n < 4; j++ {
		cb, ok := it.b[j].(uint8)
		if !ok {
			break
		}
		buf[n] = cb
		n++
	}
	r, size := utf8.DecodeRune(buf[:n])
	it.i += size
	return tuple{true, start, r}
}

func (fr *frame) rangeIter(x value, t types.Type) iter {
	switch x := x.(type) {
	case *omap:
		it := &omapIter{m: x}
		if x != nil {
			it.order = make([]int, 0, len(x.keys))
			for i := range x.keys {
				if x.live[i] {
					it.order = append(it.order, i)
				}
			}
			fr.i.permuteMapOrder(fr, it, t)
		}
		return it
	case string:
		return &stringIter{b: strToSym(x).b}
	case *symString:
		return &stringIter{b: x.b}
	}
	panic(fmt.Sprintf("cannot range over %T", x))
}
