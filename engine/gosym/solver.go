package gosym

// One long-lived solver process per worker, driven over stdin/stdout with
// push/pop.  Any "(error" line in the output makes the query inconclusive.

import (
	"bufio"
	"fmt"
	"io"
	"os/exec"
	"strconv"
	"strings"
	"time"
)

type Solver struct {
	name    string
	argv    []string
	cmd     *exec.Cmd
	in      *bufio.Writer
	out     *bufio.Reader
	defined []map[int]bool // per scope: term ids whose definitions have been emitted
	errs    []string
	log     io.Writer
	Queries int64
	Ns      int64
	timeout int // ms, current
}

func StartSolver(name string, argv []string) (*Solver, error) {
	s := &Solver{name: name, argv: argv}
	if err := s.start(); err != nil {
		return nil, err
	}
	return s, nil
}

func (s *Solver) start() error {
	cmd := exec.Command(s.argv[0], s.argv[1:]...)
	stdin, err := cmd.StdinPipe()
	if err != nil {
		return err
	}
	stdout, err := cmd.StdoutPipe()
	if err != nil {
		return err
	}
	cmd.Stderr = cmd.Stdout
	if err := cmd.Start(); err != nil {
		return err
	}
	s.cmd = cmd
	s.in = bufio.NewWriterSize(stdin, 1<<16)
	s.out = bufio.NewReaderSize(stdout, 1<<16)
	s.defined = []map[int]bool{{}}
	s.timeout = 0
	s.send("(set-option :print-success false)")
	return nil
}

func (s *Solver) Close() {
	if s.cmd != nil {
		s.send("(exit)")
		s.in.Flush()
		done := make(chan struct{})
		go func() { s.cmd.Wait(); close(done) }()
		select {
		case <-done:
		case <-time.After(2 * time.Second):
			s.cmd.Process.Kill()
		}
		s.cmd = nil
	}
}

func (s *Solver) restart() {
	if s.log != nil {
		fmt.Fprintln(s.log, "(reset)")
	}
	if s.cmd != nil {
		s.cmd.Process.Kill()
		s.cmd.Wait()
	}
	s.start()
}

func (s *Solver) send(line string) {
	if s.log != nil {
		fmt.Fprintln(s.log, line)
	}
	s.in.WriteString(line)
	s.in.WriteByte('\n')
}

func (s *Solver) Push() {
	s.send("(push 1)")
	s.defined = append(s.defined, map[int]bool{})
}

func (s *Solver) Pop() {
	s.send("(pop 1)")
	s.defined = s.defined[:len(s.defined)-1]
}

func (s *Solver) isDefined(id int) bool {
	for _, m := range s.defined {
		if m[id] {
			return true
		}
	}
	return false
}

// define emits declarations/definitions needed to refer to t.
func (s *Solver) define(t *Term) {
	switch t.op {
	case OpConst, OpTrue, OpFalse:
		return
	}
	if s.isDefined(t.id) {
		return
	}
	for _, a := range t.args {
		s.define(a)
	}
	top := s.defined[len(s.defined)-1]
	top[t.id] = true
	if t.op == OpVar {
		s.send(fmt.Sprintf("(declare-const %s %s)", t.ref(), sortOf(t)))
		return
	}
	s.send(fmt.Sprintf("(define-fun %s () %s %s)", t.ref(), sortOf(t), t.body()))
}

func (s *Solver) Assert(t *Term) {
	s.define(t)
	s.send("(assert " + t.ref() + ")")
}

type Result int

const (
	Unsat Result = iota
	Sat
	Unknown
)

func (r Result) String() string { return [...]string{"unsat", "sat", "unknown"}[r] }

func (s *Solver) readLine() (string, error) {
	line, err := s.out.ReadString('\n')
	return strings.TrimSpace(line), err
}

// Check runs (check-sat) under the current assertions.
func (s *Solver) Check(timeoutMs int) (res Result) {
	if s.log != nil {
		// the answer is recorded next to the query, for cross-checking the
		// session against a second solver
		defer func() {
			if recover_ := recover(); recover_ != nil {
				fmt.Fprintln(s.log, "; => died")
				panic(recover_)
			}
			fmt.Fprintf(s.log, "; => %s\n", [...]string{"unsat", "sat", "unknown"}[res])
		}()
	}
	return s.check(timeoutMs)
}

func (s *Solver) check(timeoutMs int) Result {
	if timeoutMs != s.timeout {
		if s.name == "cvc5" {
			s.send(fmt.Sprintf("(set-option :tlimit-per %d)", timeoutMs))
		} else {
			s.send(fmt.Sprintf("(set-option :timeout %d)", timeoutMs))
		}
		s.timeout = timeoutMs
	}
	s.send("(check-sat)")
	t0 := time.Now()
	s.in.Flush()
	s.Queries++
	defer func() { s.Ns += time.Since(t0).Nanoseconds() }()
	sawErr := false
	for {
		line, err := s.readLine()
		if err != nil {
			s.errs = append(s.errs, "solver died: "+err.Error())
			s.restart()
			panic(Inconclusive{"solver process died during check-sat"})
		}
		switch {
		case line == "sat":
			if sawErr {
				return Unknown
			}
			return Sat
		case line == "unsat":
			if sawErr {
				return Unknown
			}
			return Unsat
		case line == "unknown" || line == "timeout":
			return Unknown
		case strings.HasPrefix(line, "(error"):
			sawErr = true
			s.errs = append(s.errs, line)
		case line == "":
		default:
			// unsupported / warnings
			if strings.Contains(line, "unsupported") || strings.Contains(line, "error") {
				sawErr = true
				s.errs = append(s.errs, line)
			}
		}
	}
}

// Model returns the values of the given variables after a Sat answer.
func (s *Solver) Model(vars []*Term) map[string]uint64 {
	res := map[string]uint64{}
	if len(vars) == 0 {
		return res
	}
	var sb strings.Builder
	sb.WriteString("(get-value (")
	for _, v := range vars {
		s.define(v)
	}
	for _, v := range vars {
		sb.WriteString(v.ref())
		sb.WriteString(" ")
	}
	sb.WriteString("))")
	s.send(sb.String())
	s.in.Flush()
	// read until parentheses balance
	depth := 0
	var text strings.Builder
	started := false
	for {
		line, err := s.readLine()
		if err != nil {
			s.restart()
			panic(Inconclusive{"solver process died during get-value"})
		}
		if strings.HasPrefix(line, "(error") {
			s.errs = append(s.errs, line)
			panic(Inconclusive{"solver error during get-value: " + line})
		}
		text.WriteString(line)
		text.WriteString(" ")
		for _, c := range line {
			if c == '(' {
				depth++
				started = true
			} else if c == ')' {
				depth--
			}
		}
		if started && depth == 0 {
			break
		}
	}
	parseModel(text.String(), vars, res)
	return res
}

func parseModel(text string, vars []*Term, res map[string]uint64) {
	// format: ((|name| #x...) (|name2| true) ...)
	for _, v := range vars {
		key := "(" + v.ref() + " "
		i := strings.Index(text, key)
		if i < 0 {
			continue
		}
		rest := text[i+len(key):]
		// value ends at matching ')'
		depth := 0
		j := 0
		for j < len(rest) {
			if rest[j] == '(' {
				depth++
			} else if rest[j] == ')' {
				if depth == 0 {
					break
				}
				depth--
			}
			j++
		}
		val := strings.TrimSpace(rest[:j])
		res[v.name] = parseValue(val)
	}
}

func parseValue(val string) uint64 {
	switch {
	case val == "true":
		return 1
	case val == "false":
		return 0
	case strings.HasPrefix(val, "#x"):
		u, _ := strconv.ParseUint(val[2:], 16, 64)
		return u
	case strings.HasPrefix(val, "#b"):
		u, _ := strconv.ParseUint(val[2:], 2, 64)
		return u
	case strings.HasPrefix(val, "(_ bv"):
		f := strings.Fields(val[5:])
		u, _ := strconv.ParseUint(f[0], 10, 64)
		return u
	}
	return 0
}
