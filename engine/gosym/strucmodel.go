package gosym

// Models of github.com/lunixbochs/struc (flat structs of fixed-width
// integers and byte arrays; field order, widths and endianness tags are read
// from the real struct declaration through go/types) and sort.Slice*.

import (
	"fmt"
	"go/types"
	"reflect"
	"strings"
)

func (fr *frame) packStruct(w value, data iface, little bool) value {
	pt, ok := data.t.Underlying().(*types.Pointer)
	if !ok {
		inconclusive("struc.Pack on non-pointer %s", data.t)
	}
	st, ok := pt.Elem().Underlying().(*types.Struct)
	if !ok {
		inconclusive("struc.Pack on pointer to non-struct %s", pt.Elem())
	}
	p := data.v.(*value)
	if p == nil {
		return fr.i.mkError("struc: nil pointer")
	}
	fields := (*p).(structure)
	var out []value
	for i := 0; i < st.NumFields(); i++ {
		f := st.Field(i)
		tag := reflect.StructTag(st.Tag(i)).Get("struc")
		le := little
		if strings.Contains(tag, "little") {
			le = true
		} else if strings.Contains(tag, "big") {
			le = false
		}
		if strings.Contains(tag, "skip") {
			continue
		}
		if strings.ContainsAny(strings.Split(tag, ",")[0], "[]0123456789") && strings.Split(tag, ",")[0] != "" {
			inconclusive("struc field type override %q not modelled", tag)
		}
		switch ft := f.Type().Underlying().(type) {
		case *types.Basic:
			k := ft.Kind()
			if !isIntKind(k) && k != types.Bool {
				inconclusive("struc.Pack: field %s of kind %s not modelled", f.Name(), ft)
			}
			n := 1
			if k != types.Bool {
				n = kindWidth(k) / 8
			}
			t := fr.i.toTerm(fields[i], k)
			bs := make([]value, n)
			for b := 0; b < n; b++ {
				var bt *Term
				if k == types.Bool {
					bt = fr.i.st.Ite(t, fr.i.st.Const(8, 1), fr.i.st.Const(8, 0))
				} else {
					bt = fr.i.st.Extract(t, 8*b+7, 8*b)
				}
				bv := fr.i.mkSym(bt, types.Uint8)
				if le {
					bs[b] = bv
				} else {
					bs[n-1-b] = bv
				}
			}
			out = append(out, bs...)
		case *types.Array:
			eb, ok := ft.Elem().Underlying().(*types.Basic)
			if !ok || (eb.Kind() != types.Uint8 && eb.Kind() != types.Int8) {
				inconclusive("struc.Pack: array field %s of %s not modelled", f.Name(), ft.Elem())
			}
			out = append(out, []value(fields[i].(array))...)
		default:
			inconclusive("struc.Pack: field %s of type %s not modelled", f.Name(), f.Type())
		}
	}
	fr.writeTo(w, out)
	return nilError()
}

func init() {
	I := intrinsics
	I["github.com/lunixbochs/struc.PackWithOptions"] = func(fr *frame, args []value) (value, bool) {
		little := false
		if op, ok := args[2].(*value); ok && op != nil {
			opts := (*op).(structure)
			for _, f := range opts {
				if itf, ok := f.(iface); ok && itf.t != nil {
					if strings.Contains(strings.ToLower(itf.t.String()), "littleendian") {
						little = true
					}
				}
			}
		}
		return fr.packStruct(args[0], args[1].(iface), little), true
	}
	I["github.com/lunixbochs/struc.Pack"] = func(fr *frame, args []value) (value, bool) {
		return fr.packStruct(args[0], args[1].(iface), false), true
	}
	sortSlice := func(fr *frame, args []value) (value, bool) {
		itf := args[0].(iface)
		sl, ok := itf.v.([]value)
		if !ok {
			inconclusive("sort.Slice on %T", itf.v)
		}
		less := args[1]
		in := fr.i
		callLess := func(i, j int) bool {
			r := in.call(fr, 0, less, []value{i, j})
			switch r := r.(type) {
			case bool:
				return r
			case symv:
				return fr.branch(r.t)
			}
			panic(fmt.Sprintf("less returned %T", r))
		}
		// stable insertion sort, swapping in place (less reads the live slice)
		for i := 1; i < len(sl); i++ {
			for j := i; j > 0 && callLess(j, j-1); j-- {
				in.undo = append(in.undo, undoRec{addr: &sl[j], old: sl[j]}, undoRec{addr: &sl[j-1], old: sl[j-1]})
				sl[j], sl[j-1] = sl[j-1], sl[j]
			}
		}
		return nil, true
	}
	I["sort.SliceStable"] = sortSlice
	I["sort.Slice"] = sortSlice
	I["sort.Strings"] = func(fr *frame, args []value) (value, bool) {
		sl := args[0].([]value)
		in := fr.i
		for i := 1; i < len(sl); i++ {
			for j := i; j > 0; j-- {
				a, ok1 := sl[j].(string)
				b, ok2 := sl[j-1].(string)
				if !ok1 || !ok2 {
					inconclusive("sort.Strings on symbolic strings")
				}
				if !(a < b) {
					break
				}
				in.undo = append(in.undo, undoRec{addr: &sl[j], old: sl[j]}, undoRec{addr: &sl[j-1], old: sl[j-1]})
				sl[j], sl[j-1] = sl[j-1], sl[j]
			}
		}
		return nil, true
	}
}
