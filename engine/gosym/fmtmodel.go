package gosym

// Models of fmt, log, errors-as-text, os file system.

import (
	"fmt"
	"go/types"
	"strconv"
	"strings"

	"golang.org/x/tools/go/ssa"
)

// opaque is a string element standing for text the engine did not render
// (unsupported verb/operand).  Carrying it around is fine; inspecting it is
// inconclusive.
type opaque struct{ why string }

type envModel struct {
	files    map[string]*memFile
	diag     []string
	stdout   []string
	capture  bool    // a vrt.RunCLI run is in progress: format printed text in full
	cliOut   []value // the captured text pieces (string or *symString)
	dirs     map[string]bool
	onceDone map[*value]bool
	syncMaps map[*value]*omap
	args     []string
	fsFail   map[string]bool // paths whose open/create fails
	nowCount int
}

type memFile struct {
	data   []value
	exists bool
}

func newEnv() *envModel {
	return &envModel{files: map[string]*memFile{}, onceDone: map[*value]bool{}, fsFail: map[string]bool{}, syncMaps: map[*value]*omap{}}
}

func (e *envModel) resetPath() {
	e.files = map[string]*memFile{}
	e.diag = nil
	e.stdout = nil
	e.capture, e.cliOut, e.dirs = false, nil, nil
	e.fsFail = map[string]bool{}
	e.nowCount = 0
}

var errorIface = types.Universe.Lookup("error").Type().Underlying().(*types.Interface)

// callMethod calls the named niladic method returning string on v of type t.
func (fr *frame) callStringMethod(t types.Type, v value, name string) (value, bool) {
	ms := fr.i.prog.MethodSets.MethodSet(t)
	for i := 0; i < ms.Len(); i++ {
		sel := ms.At(i)
		if sel.Obj().Name() != name {
			continue
		}
		sig := sel.Type().(*types.Signature)
		if sig.Params().Len() != 0 || sig.Results().Len() != 1 {
			return nil, false
		}
		if b, ok := sig.Results().At(0).Type().Underlying().(*types.Basic); !ok || b.Kind() != types.String {
			return nil, false
		}
		fn := fr.i.prog.MethodValue(sel)
		if fn == nil {
			return nil, false
		}
		return fr.i.call(fr, 0, fn, []value{v}), true
	}
	return nil, false
}

func opaqueStr(why string) value {
	return &symString{b: []value{opaque{why}}}
}

// formatValue renders one operand under a verb.
func (fr *frame) formatValue(verb byte, flags string, a value) value {
	itf, isIface := a.(iface)
	var t types.Type
	v := a
	if isIface {
		t, v = itf.t, itf.v
		if t == nil {
			if verb == 'v' || verb == 's' {
				return "<nil>"
			}
			return "%!" + string(verb) + "(<nil>)"
		}
	}
	if verb == 'T' {
		if t == nil {
			return "<nil>"
		}
		return types.TypeString(t, nil)
	}
	// error / Stringer
	if t != nil && (verb == 'v' || verb == 's' || verb == 'w' || verb == 'q') {
		if p, ok := v.(*value); ok && p == nil {
			if _, isPtr := t.Underlying().(*types.Pointer); isPtr {
				// nil pointer receiver: fmt prints <nil>
				return "<nil>"
			}
		}
		if s, ok := fr.callStringMethod(t, v, "Error"); ok {
			if verb == 'q' {
				if cs, ok := s.(string); ok {
					return strconv.Quote(cs)
				}
				return opaqueStr("%q of symbolic error text")
			}
			return s
		}
		if flags != "+" && flags != "#" {
			if s, ok := fr.callStringMethod(t, v, "String"); ok {
				if verb == 'q' {
					if cs, ok := s.(string); ok {
						return strconv.Quote(cs)
					}
					return opaqueStr("%q of symbolic text")
				}
				return s
			}
		}
	}
	switch x := v.(type) {
	case string:
		switch verb {
		case 's', 'v':
			if flags == "" {
				return x
			}
			return fmt.Sprintf("%"+flags+string(verb), x)
		case 'q':
			return strconv.Quote(x)
		case 'x', 'X':
			return fmt.Sprintf("%"+flags+string(verb), x)
		}
	case *symString:
		switch verb {
		case 's', 'v':
			if flags == "" {
				return x
			}
		}
		return opaqueStr("verb " + string(verb) + " on symbolic string")
	case bool:
		if verb == 't' || verb == 'v' {
			return strconv.FormatBool(x)
		}
	case symv:
		if x.k == types.Bool {
			return opaqueStr("symbolic bool formatted")
		}
		if (verb == 'd' || verb == 'v') && flags == "" {
			return fr.formatInt(x)
		}
		if verb == 's' && flags == "" {
			names := map[types.BasicKind]string{types.Int: "int", types.Int8: "int8", types.Int16: "int16", types.Int32: "int32", types.Int64: "int64",
				types.Uint: "uint", types.Uint8: "uint8", types.Uint16: "uint16", types.Uint32: "uint32", types.Uint64: "uint64", types.Uintptr: "uintptr"}
			return concat(concat("%!s("+names[x.k]+"=", fr.formatInt(x)), ")")
		}
		return opaqueStr("verb " + string(verb) + " on symbolic integer")
	case float32, float64:
		return fmt.Sprintf("%"+flags+string(verb), x)
	case []value:
		// []byte with %s / %x ; []string etc with %v
		if bs, ok := bytesOf(x); ok && t != nil && isByteSlice(t) {
			switch verb {
			case 's':
				return string(bs)
			case 'x', 'X', 'q':
				return fmt.Sprintf("%"+flags+string(verb), bs)
			case 'v':
				return fmt.Sprintf("%v", bs)
			}
		}
		if verb == 'v' || verb == 's' || verb == 'd' || verb == 'x' {
			var elemT types.Type
			if t != nil {
				if st, ok := t.Underlying().(*types.Slice); ok {
					elemT = st.Elem()
				}
			}
			var acc value = "["
			for i, e := range x {
				if i > 0 {
					acc = concat(acc, " ")
				}
				ev := e
				if elemT != nil {
					if _, isI := elemT.Underlying().(*types.Interface); !isI {
						ev = iface{t: elemT, v: e}
					}
				}
				acc = concat(acc, fr.formatValue(verb, flags, ev))
			}
			return concat(acc, "]")
		}
	case *value:
		if x == nil {
			return "<nil>"
		}
		if verb == 'p' {
			return "0xc000000000"
		}
		if verb == 'v' || verb == 's' {
			// pointer to struct prints &{...}
			if t != nil {
				if pt, ok := t.Underlying().(*types.Pointer); ok {
					if _, ok := pt.Elem().Underlying().(*types.Struct); ok {
						return concat("&", fr.formatValue(verb, flags, iface{t: pt.Elem(), v: *x}))
					}
				}
			}
			return "0xc000000000"
		}
	case structure:
		if verb == 'v' && t != nil {
			stt, _ := t.Underlying().(*types.Struct)
			var acc value = "{"
			for i, e := range x {
				if i > 0 {
					acc = concat(acc, " ")
				}
				var ft types.Type
				if stt != nil {
					ft = stt.Field(i).Type()
					if flags == "+" {
						acc = concat(acc, stt.Field(i).Name()+":")
					}
				}
				ev := e
				if ft != nil {
					if _, isI := ft.Underlying().(*types.Interface); !isI {
						ev = iface{t: ft, v: e}
					}
				}
				acc = concat(acc, fr.formatValue('v', flags, ev))
			}
			return concat(acc, "}")
		}
	case *omap:
		return opaqueStr("map formatted")
	case *ssa.Function, *closure:
		return "0xfunc"
	}
	if b, ok := intBits(v); ok {
		signed := kindSigned(kindOf(v))
		f := "%" + flags + string(verb)
		switch verb {
		case 'd', 'v', 'x', 'X', 'o', 'b', 'c', 'q', 'U':
			if verb == 'v' {
				f = "%" + flags + "d"
				if flags == "+" || flags == "#" {
					f = "%d"
				}
			}
			if signed {
				return fmt.Sprintf(f, int64(b))
			}
			w := kindWidth(kindOf(v))
			return fmt.Sprintf(f, b&mask(w))
		case 's':
			return fmt.Sprintf("%%!s(int=%d)", int64(b))
		}
	}
	return opaqueStr(fmt.Sprintf("verb %%%s%c on %T", flags, verb, v))
}

func isByteSlice(t types.Type) bool {
	if st, ok := t.Underlying().(*types.Slice); ok {
		if b, ok := st.Elem().Underlying().(*types.Basic); ok && b.Kind() == types.Uint8 {
			return true
		}
	}
	return false
}

// sprintf models fmt.Sprintf.
func (fr *frame) sprintf(format value, args []value) value {
	f, ok := format.(string)
	if !ok {
		return opaqueStr("symbolic format string")
	}
	var acc value = ""
	argi := 0
	i := 0
	for i < len(f) {
		j := strings.IndexByte(f[i:], '%')
		if j < 0 {
			acc = concat(acc, f[i:])
			break
		}
		acc = concat(acc, f[i:i+j])
		i += j + 1
		if i >= len(f) {
			acc = concat(acc, "%!(NOVERB)")
			break
		}
		// flags, width, precision
		start := i
		for i < len(f) && strings.IndexByte("+-# 0123456789.*", f[i]) >= 0 {
			i++
		}
		if i >= len(f) {
			acc = concat(acc, "%!(NOVERB)")
			break
		}
		flags := f[start:i]
		verb := f[i]
		i++
		if verb == '%' {
			acc = concat(acc, "%")
			continue
		}
		if strings.Contains(flags, "*") {
			acc = concat(acc, opaqueStr("* width"))
			argi += 2
			continue
		}
		if argi >= len(args) {
			acc = concat(acc, "%!"+string(verb)+"(MISSING)")
			continue
		}
		acc = concat(acc, fr.formatValue(verb, flags, args[argi]))
		argi++
	}
	if argi < len(args) {
		acc = concat(acc, "%!(EXTRA)")
	}
	return acc
}

func (fr *frame) sprint(args []value, ln bool) value {
	var acc value = ""
	prevString := true
	for i, a := range args {
		isStr := false
		if itf, ok := a.(iface); ok {
			switch itf.v.(type) {
			case string, *symString:
				isStr = true
			}
		}
		if ln {
			if i > 0 {
				acc = concat(acc, " ")
			}
		} else if i > 0 && !isStr && !prevString {
			acc = concat(acc, " ")
		}
		acc = concat(acc, fr.formatValue('v', "", a))
		prevString = isStr
	}
	if ln {
		acc = concat(acc, "\n")
	}
	return acc
}

func variadic(v value) []value {
	if v == nil {
		return nil
	}
	return v.([]value)
}

func strOrDebug(v value) string {
	switch v := v.(type) {
	case string:
		return v
	case *symString:
		return v.debug()
	}
	return toString(v)
}

func init() {
	I := intrinsics
	I["fmt.Sprintf"] = func(fr *frame, args []value) (value, bool) {
		return fr.sprintf(args[0], variadic(args[1])), true
	}
	I["fmt.Sprint"] = func(fr *frame, args []value) (value, bool) {
		return fr.sprint(variadic(args[0]), false), true
	}
	I["fmt.Sprintln"] = func(fr *frame, args []value) (value, bool) {
		return fr.sprint(variadic(args[0]), true), true
	}
	I["fmt.Errorf"] = func(fr *frame, args []value) (value, bool) {
		return fr.i.mkError(fr.sprintf(args[0], variadic(args[1]))), true
	}
	// While a command-line run is being captured (vrt.RunCLI) the text is
	// formatted in full; otherwise only the format string is recorded.
	I["fmt.Printf"] = func(fr *frame, args []value) (value, bool) {
		fr.i.env.stdout = append(fr.i.env.stdout, strOrDebug(args[0]))
		if fr.i.env.capture {
			fr.i.env.cliOut = append(fr.i.env.cliOut, fr.sprintf(args[0], variadic(args[1])))
		}
		return tuple{0, nilError()}, true
	}
	I["fmt.Println"] = func(fr *frame, args []value) (value, bool) {
		fr.i.env.stdout = append(fr.i.env.stdout, strOrDebug(fr.sprint(variadic(args[0]), false)))
		if fr.i.env.capture {
			fr.i.env.cliOut = append(fr.i.env.cliOut, fr.sprint(variadic(args[0]), true))
		}
		return tuple{0, nilError()}, true
	}
	I["fmt.Print"] = func(fr *frame, args []value) (value, bool) {
		fr.i.env.stdout = append(fr.i.env.stdout, strOrDebug(fr.sprint(variadic(args[0]), false)))
		if fr.i.env.capture {
			fr.i.env.cliOut = append(fr.i.env.cliOut, fr.sprint(variadic(args[0]), false))
		}
		return tuple{0, nilError()}, true
	}
	I["fmt.Fprintf"] = func(fr *frame, args []value) (value, bool) {
		fr.i.env.stdout = append(fr.i.env.stdout, strOrDebug(args[1]))
		if fr.i.env.capture {
			fr.i.env.cliOut = append(fr.i.env.cliOut, fr.sprintf(args[1], variadic(args[2])))
		}
		return tuple{0, nilError()}, true
	}
	I["fmt.Fprintln"] = func(fr *frame, args []value) (value, bool) {
		fr.i.env.stdout = append(fr.i.env.stdout, strOrDebug(fr.sprint(variadic(args[1]), false)))
		if fr.i.env.capture {
			fr.i.env.cliOut = append(fr.i.env.cliOut, fr.sprint(variadic(args[1]), true))
		}
		return tuple{0, nilError()}, true
	}
	I["fmt.Fprint"] = func(fr *frame, args []value) (value, bool) {
		fr.i.env.stdout = append(fr.i.env.stdout, strOrDebug(fr.sprint(variadic(args[1]), false)))
		if fr.i.env.capture {
			fr.i.env.cliOut = append(fr.i.env.cliOut, fr.sprint(variadic(args[1]), false))
		}
		return tuple{0, nilError()}, true
	}

	// ---- log: formatting stubbed; the format string is recorded ----
	logf := func(fr *frame, args []value) (value, bool) {
		fr.i.env.diag = append(fr.i.env.diag, strOrDebug(args[0]))
		return nil, true
	}
	logln := func(fr *frame, args []value) (value, bool) {
		va := variadic(args[0])
		s := ""
		if len(va) > 0 {
			if itf, ok := va[0].(iface); ok {
				if cs, ok := itf.v.(string); ok {
					s = cs
				}
			}
		}
		fr.i.env.diag = append(fr.i.env.diag, s)
		return nil, true
	}
	I["log.Printf"] = logf
	I["log.Println"] = logln
	I["log.Print"] = logln
	I["log.Fatalf"] = func(fr *frame, args []value) (value, bool) {
		fr.i.env.diag = append(fr.i.env.diag, "FATAL: "+strOrDebug(args[0]))
		panic(exitPanic(1))
	}
	I["log.Fatal"] = func(fr *frame, args []value) (value, bool) {
		fr.i.env.diag = append(fr.i.env.diag, "FATAL")
		panic(exitPanic(1))
	}
	I["log.Fatalln"] = I["log.Fatal"]
	I["log.Panicf"] = func(fr *frame, args []value) (value, bool) {
		panic(targetPanic{iface{t: types.Typ[types.String], v: fr.sprintf(args[0], variadic(args[1]))}})
	}
	I["log.SetOutput"] = noop
	I["log.SetFlags"] = noop
	I["log.SetPrefix"] = noop
	I["log.Flags"] = func(fr *frame, args []value) (value, bool) { return 0, true }
}
