package gosym

// Loading /repo with harness overlays, building SSA, creating interpreter
// instances, and running a harness function to exhaustion (DFS over paths).

import (
	"fmt"
	"go/types"
	"os"
	"os/exec"
	"path/filepath"
	"runtime"
	"runtime/debug"
	"sort"
	"strings"
	"sync/atomic"
	"time"

	"golang.org/x/tools/go/packages"
	"golang.org/x/tools/go/ssa"
	"golang.org/x/tools/go/ssa/ssautil"
)

var progress = os.Getenv("GOSYM_PROGRESS") != ""

type Config struct {
	RepoDir         string
	Overlay         map[string][]byte
	Tags            string
	Patterns        []string
	FeasTimeoutMs   int
	AssertTimeoutMs int
	MaxSteps        int64
	MaxDigits       int
	ConcretizeLimit int
	DiscoverDepth   int
	MaxPaths        int
	SolverArgv      []string
	SolverName      string
	Findings        []*Finding
	Trace           bool
	MapOrderPerms   bool
	SolverLog       string
	ValidatePerCell int
	Params          map[string]int
	CLIPackage      string // the command whose main() vrt.RunCLI runs

	embedPath string
}

func (c *Config) defaults() {
	if c.CLIPackage == "" {
		c.CLIPackage = "github.com/HobbyOSs/gosk/cmd/gosk"
	}
	if c.FeasTimeoutMs == 0 {
		c.FeasTimeoutMs = 10000
	}
	if c.AssertTimeoutMs == 0 {
		c.AssertTimeoutMs = 60000
	}
	if c.MaxSteps == 0 {
		c.MaxSteps = 50_000_000
	}
	if c.MaxDigits == 0 {
		c.MaxDigits = 10
	}
	if c.ConcretizeLimit == 0 {
		c.ConcretizeLimit = 300
	}
	if c.MaxPaths == 0 {
		c.MaxPaths = 200000
	}
	if len(c.SolverArgv) == 0 {
		c.SolverArgv = []string{"z3", "-in"}
		c.SolverName = "z3"
		// z3 5.1.0 (z3-new) decides the multiplication/digit-range queries that
		// 4.8.12 times out on; it is the primary solver when present
		if p, err := exec.LookPath("z3-new"); err == nil {
			c.SolverArgv = []string{p, "-in"}
			c.SolverName = "z3-new"
		}
		if s := os.Getenv("GOSYM_SOLVER"); s != "" {
			c.SolverArgv = []string{s, "-in"}
			c.SolverName = s
		}
	}
}

type Program struct {
	Prog   *ssa.Program
	Pkgs   []*packages.Package
	cfg    *Config
	LoadS  float64
	BuildS float64
}

func Load(cfg *Config) (*Program, error) {
	cfg.defaults()
	t0 := time.Now()
	pcfg := &packages.Config{
		Mode: packages.NeedName | packages.NeedFiles | packages.NeedCompiledGoFiles | packages.NeedImports |
			packages.NeedDeps | packages.NeedTypes | packages.NeedSyntax | packages.NeedTypesInfo | packages.NeedTypesSizes |
			packages.NeedModule | packages.NeedEmbedFiles,
		Dir:     cfg.RepoDir,
		Overlay: cfg.Overlay,
		Env:     append(os.Environ(), "GOFLAGS=-mod=mod", "GOPROXY=off", "GOSUMDB=off", "GOTOOLCHAIN=local", "CGO_ENABLED=0"),
	}
	if cfg.Tags != "" {
		pcfg.BuildFlags = []string{"-tags=" + cfg.Tags}
	}
	pkgs, err := packages.Load(pcfg, cfg.Patterns...)
	if err != nil {
		return nil, err
	}
	var errs []string
	packages.Visit(pkgs, nil, func(p *packages.Package) {
		for _, e := range p.Errors {
			errs = append(errs, e.Error())
		}
		if p.PkgPath == "github.com/HobbyOSs/json-x86-64-go-mod" {
			for _, f := range p.EmbedFiles {
				if strings.HasSuffix(f, ".gz") {
					cfg.embedPath = f
				}
			}
			if cfg.embedPath == "" && len(p.GoFiles) > 0 {
				cfg.embedPath = filepath.Join(filepath.Dir(p.GoFiles[0]), "x86_64.json.gz")
			}
		}
	})
	if len(errs) > 0 {
		return nil, fmt.Errorf("package load errors:\n%s", strings.Join(errs, "\n"))
	}
	loadS := time.Since(t0).Seconds()
	t1 := time.Now()
	prog, _ := ssautil.AllPackages(pkgs, ssa.InstantiateGenerics)
	prog.Build()
	return &Program{Prog: prog, Pkgs: pkgs, cfg: cfg, LoadS: loadS, BuildS: time.Since(t1).Seconds()}, nil
}

func (p *Program) SolverName() string { return p.cfg.SolverName }

// FindFunc resolves "pkgpath.Func".
func (p *Program) FindFunc(name string) *ssa.Function {
	i := strings.LastIndex(name, ".")
	if i < 0 {
		return nil
	}
	pkgPath, fn := name[:i], name[i+1:]
	for _, pkg := range p.Prog.AllPackages() {
		if pkg.Pkg.Path() == pkgPath {
			return pkg.Func(fn)
		}
	}
	return nil
}

var interpInitPrefixes = []string{
	"github.com/HobbyOSs/gosk",
	"github.com/samber/lo",
	"github.com/morikuni/failure",
	"github.com/zeroflucs-given/generics",
	"github.com/harakeishi/gats",
	// the source-decoding step of the command line (C19)
	"golang.org/x/text/encoding",
	"golang.org/x/text/transform",
	"golang.org/x/text/internal/identifier",
	"golang.org/x/text/internal/utf8internal",
	"golang.org/x/net/html/charset",
}

var interpInitStd = map[string]bool{
	"strings": true, "strconv": true, "unicode": true, "unicode/utf8": true, "sort": true,
	"bytes": true, "math": true, "math/bits": true, "encoding/binary": true, "path/filepath": true, "path": true,
	"slices": true, "maps": true, "cmp": true, "io": true, "unicode/utf16": true, "bufio": true,
	"encoding/hex": true, "container/list": true,
}

func shouldInit(pkgPath string) bool {
	for _, p := range interpInitPrefixes {
		if strings.HasPrefix(pkgPath, p) {
			return true
		}
	}
	return interpInitStd[pkgPath]
}

func (p *Program) FindPackage(path string) *ssa.Package {
	for _, pkg := range p.Prog.AllPackages() {
		if pkg.Pkg.Path() == path {
			return pkg
		}
	}
	return nil
}

// Options are the per-harness settings of an interpreter.
type Options struct {
	DiscoverDepth int
	MaxDigits     int
	MapOrderPerms bool
	MaxSteps      int64
	Params        map[string]int
}

func (in *Interp) SetOptions(o Options) {
	in.cfg.DiscoverDepth = o.DiscoverDepth
	in.cfg.MaxDigits = o.MaxDigits
	if o.MaxDigits == 0 {
		in.cfg.MaxDigits = 10
	}
	in.cfg.MapOrderPerms = o.MapOrderPerms
	in.cfg.Params = o.Params
	if o.MaxSteps > 0 {
		in.maxSteps = o.MaxSteps
	} else {
		in.maxSteps = in.cfg.MaxSteps
	}
}

func (p *Program) NewInterp() (*Interp, error) {
	cc := *p.cfg
	cfg := &cc
	in := &Interp{
		prog:      p.Prog,
		globals:   make(map[*ssa.Global]*value),
		fninfo:    make(map[*ssa.Function]*fnInfo),
		st:        NewStore(),
		cfg:       cfg,
		env:       newEnv(),
		maxSteps:  cfg.MaxSteps * 20, // generous during initialisation
		trace:     cfg.Trace,
		panicSeen: map[string]bool{},
	}
	in.Stats.Funcs = map[string]bool{}
	if len(p.Pkgs) > 0 {
		in.sizes = p.Pkgs[0].TypesSizes
	}
	sv, err := StartSolver(cfg.SolverName, cfg.SolverArgv)
	if err != nil {
		return nil, err
	}
	in.sv = sv
	if sl := os.Getenv("GOSYM_SOLVERLOG"); sl != "" && cfg.SolverLog == "" {
		cfg.SolverLog = sl
	}
	if cfg.SolverLog != "" {
		f, _ := os.Create(cfg.SolverLog)
		sv.log = f
	}
	if rt := p.Prog.ImportedPackage("runtime"); rt != nil {
		in.runtimeErrorString = rt.Type("errorString").Object().Type()
	} else {
		in.runtimeErrorString = types.Typ[types.String]
	}
	if ep := p.Prog.ImportedPackage("errors"); ep != nil {
		in.errorStringPtr = types.NewPointer(ep.Type("errorString").Object().Type())
	}
	for _, pkg := range p.Prog.AllPackages() {
		for _, m := range pkg.Members {
			if g, ok := m.(*ssa.Global); ok {
				cell := new(value)
				*cell = zero(deref(g.Type()))
				in.globals[g] = cell
			}
		}
	}
	return in, nil
}

// InitPackages runs the package initialisers reachable from pkg (own part
// only for packages outside the interpreted set).
func (in *Interp) InitPackages(pkg *ssa.Package) (err error) {
	defer func() {
		if p := recover(); p != nil {
			err = fmt.Errorf("initialisation failed: %s\ntarget stack:\n%s", panicText(p), in.abortStack)
		}
	}()
	in.callSSA(nil, 0, pkg.Func("init"), nil, nil)
	in.undo = in.undo[:0]
	in.maxSteps = in.cfg.MaxSteps
	return nil
}

// InitCLI additionally initialises the command package (and, through it,
// the charset tables its source-decoding step uses).
func (in *Interp) InitCLI() error {
	pkg := in.prog.ImportedPackage(in.cfg.CLIPackage)
	if pkg == nil {
		return fmt.Errorf("command package %s not loaded", in.cfg.CLIPackage)
	}
	saved := in.maxSteps
	in.maxSteps = in.cfg.MaxSteps * 200
	err := in.InitPackages(pkg)
	in.maxSteps = saved
	return err
}

func panicText(p interface{}) string {
	switch p := p.(type) {
	case Inconclusive:
		return p.Error()
	case pathEnd:
		return "path end: " + p.kind + " " + p.msg
	case exitPanic:
		return fmt.Sprintf("exit(%d)", int(p))
	case runtime.Error:
		return "engine runtime error: " + p.Error()
	}
	return describePanic(p)
}

// ---- running a harness ----

type PathSample struct {
	Decisions int               `json:"decisions"`
	Chooses   map[string]int    `json:"chooses,omitempty"`
	Notes     map[string]string `json:"notes,omitempty"`
	Outcome   string            `json:"outcome"`
	PathCond  []string          `json:"path_condition,omitempty"`
	Asserts   int               `json:"asserts"`
}

// ValidationSample is a completed path together with a model of its path
// condition and the values the harness noted, for comparison with a native run.
type ValidationSample struct {
	Harness string            `json:"harness"`
	Model   map[string]int64  `json:"model"`
	Chooses map[string]int    `json:"chooses"`
	Notes   map[string]string `json:"notes"`
	Params  map[string]int    `json:"params,omitempty"`
}

type CellResult struct {
	Harness      string
	Prefix       []int
	Paths        int
	Completed    int
	AssumeEnded  int
	Infeasible   int
	KnownEnded   int
	Violations   []*Violation
	Inconclusive []string
	Reached      map[string]bool
	KnownHits    map[string]bool
	Samples      []PathSample
	Asserts      int
	AssertsUnsat int
	Validations  []*ValidationSample
	Prefixes     [][]int // discover mode
	ShortCells   int     // discover mode: paths that ended before the cell depth
	Wall         float64
	TruncatedAt  int
}

func (in *Interp) resetSolverScope() {
	for len(in.sv.defined) > 1 {
		in.sv.Pop()
	}
}

// RunHarness explores all paths of fn whose first decisions equal prefix.
func (in *Interp) RunHarness(fn *ssa.Function, prefix []int, prefixArity []int) *CellResult {
	t0 := time.Now()
	res := &CellResult{Harness: fn.String(), Prefix: prefix, Reached: map[string]bool{}, KnownHits: map[string]bool{}}
	var decs []decision
	for i, a := range prefix {
		n := a + 1
		if i < len(prefixArity) {
			n = prefixArity[i]
		}
		decs = append(decs, decision{alt: a, nalts: n, forced: true, prefix: true})
	}
	checkAt := -1
	in.onceCache = map[string]value{}
	in.cellUndo = in.cellUndo[:0]
	defer func() {
		// undo the kept effects of vrt.Once computations
		for i := len(in.cellUndo) - 1; i >= 0; i-- {
			u := &in.cellUndo[i]
			if u.fn != nil {
				u.fn()
			} else {
				*u.addr = u.old
			}
		}
		in.cellUndo = in.cellUndo[:0]
		in.onceCache = nil
	}()
	for {
		// a cell that has already produced several violations is not explored
		// further: the check is failing, and a change that makes input bytes
		// flow into symbol names can multiply the paths of a cell a thousandfold
		if in.cfg.DiscoverDepth == 0 && len(res.Violations) >= 5 {
			res.TruncatedAt = res.Paths
			break
		}
		// the whole check has already found plenty of violations: stop exploring
		if in.Stop != nil && atomic.LoadInt32(in.Stop) != 0 {
			res.TruncatedAt = res.Paths
			break
		}
		if res.Paths >= in.cfg.MaxPaths {
			res.Inconclusive = append(res.Inconclusive, fmt.Sprintf("path budget of %d exhausted", in.cfg.MaxPaths))
			res.TruncatedAt = res.Paths
			break
		}
		res.Paths++
		in.Stats.Paths++
		tp := time.Now()
		outcome := in.runPath(fn, decs, checkAt, res)
		p := in.path
		if progress {
			fmt.Fprintf(os.Stderr, "path %d: %s decisions=%d steps=%d queries=%d %.2fs [%s]\n", res.Paths, outcome, p.pos, in.steps, in.Stats.SolverQueries, time.Since(tp).Seconds(), in.pathLabel())
			if os.Getenv("GOSYM_PROGRESS") == "2" {
				for i, c := range p.pc {
					cs := c.String()
					if len(cs) > 160 {
						cs = cs[:160] + "…"
					}
					fmt.Fprintf(os.Stderr, "    pc[%d] %s\n", i, cs)
				}
			}
		}
		decs = p.decs
		in.path = nil
		_ = outcome
		// next prefix
		advanced := false
		for len(decs) > len(prefix) {
			d := &decs[len(decs)-1]
			if !d.forced && d.alt+1 < d.nalts {
				d.alt++
				checkAt = -1
				if d.unchecked {
					checkAt = len(decs) - 1
				}
				advanced = true
				break
			}
			decs = decs[:len(decs)-1]
		}
		if !advanced {
			break
		}
	}
	res.Wall = time.Since(t0).Seconds()
	return res
}

func (in *Interp) runPath(fn *ssa.Function, decs []decision, checkAt int, res *CellResult) (outcome string) {
	in.path = in.newPath(decs, checkAt)
	in.env.resetPath()
	in.steps = 0
	in.depth = 0
	in.violationsMark = len(in.violations)
	in.abortStack = ""
	mark := len(in.undo)
	in.undoOn = true
	in.sv.Push()
	p := in.path
	defer func() {
		in.undoOn = false
		in.Stats.Steps += in.steps
		if r := recover(); r != nil {
			switch r := r.(type) {
			case pathEnd:
				outcome = r.kind
				switch r.kind {
				case "assume":
					res.AssumeEnded++
				case "infeasible":
					res.Infeasible++
				case "known":
					res.KnownEnded++
				case "budget":
					if in.outcomeViolation("budget", r.msg) {
						outcome = "violation"
					}
				case "discover":
					var pre []int
					for _, d := range p.decs[:p.pos] {
						pre = append(pre, d.alt)
					}
					res.Prefixes = append(res.Prefixes, pre)
				}
			case Inconclusive:
				outcome = "inconclusive"
				res.Inconclusive = append(res.Inconclusive, r.Reason+" ["+in.pathLabel()+"]\n"+in.abortStack)
			case exitPanic:
				outcome = fmt.Sprintf("exit:%d", int(r))
				if in.outcomeViolation("no-exit", fmt.Sprintf("harness ended by os.Exit(%d)", int(r))) {
					outcome = "violation"
				}
			case targetPanic, runtimeError:
				outcome = describePanic(r)
				if in.outcomeViolation("no-panic", outcome) {
					outcome = "violation"
				}
			case runtime.Error:
				if _, ok := r.(*runtime.TypeAssertionError); ok {
					outcome = "inconclusive"
					res.Inconclusive = append(res.Inconclusive, "engine error: "+r.Error()+" ["+in.pathLabel()+"]\n"+in.abortStack)
				} else {
					outcome = describePanic(r)
					// Go run-time errors raised inside the engine on behalf of the target
					if in.outcomeViolation("no-panic", outcome+"\n"+string(debug.Stack())) {
						outcome = "violation"
					}
				}
			default:
				outcome = "inconclusive"
				res.Inconclusive = append(res.Inconclusive, fmt.Sprintf("engine panic: %v [%s]\n%s", r, in.pathLabel(), debug.Stack()))
			}
		} else {
			outcome = "done"
			res.Completed++
			if len(res.Validations) < in.cfg.ValidatePerCell {
				if vs := in.validationSample(fn.String()); vs != nil {
					res.Validations = append(res.Validations, vs)
				}
			}
		}
		// discovery: a path that ends before the cell depth is reached is a
		// cell of its own (its whole decision sequence), so that the cell
		// phase — whose results are the ones reported — runs it too
		if in.cfg.DiscoverDepth > 0 && outcome != "discover" && outcome != "assume" && outcome != "infeasible" {
			var pre []int
			for _, d := range p.decs[:p.pos] {
				pre = append(pre, d.alt)
			}
			res.Prefixes = append(res.Prefixes, pre)
			res.ShortCells++
		}
		for _, v := range in.violations[in.violationsMark:] {
			res.Violations = append(res.Violations, v)
		}
		for k := range p.reached {
			res.Reached[k] = true
		}
		for k := range p.knownHit {
			res.KnownHits[k] = true
		}
		res.Asserts += p.asserts
		res.AssertsUnsat += p.unsatAsserts
		if len(res.Samples) < 3 && (outcome == "done" || outcome == "known") {
			s := PathSample{Decisions: p.pos, Chooses: p.chooses, Notes: p.notes, Outcome: outcome, Asserts: p.asserts}
			for i, c := range p.pc {
				if i >= 12 {
					break
				}
				cs := c.String()
				if len(cs) > 200 {
					cs = cs[:200] + "…"
				}
				s.PathCond = append(s.PathCond, cs)
			}
			res.Samples = append(res.Samples, s)
		}
		in.rollback(mark)
		in.resetSolverScope()
	}()
	in.callSSA(nil, 0, fn, nil, nil)
	return
}

func (in *Interp) validationSample(harness string) (vs *ValidationSample) {
	defer func() {
		if r := recover(); r != nil {
			vs = nil
		}
	}()
	p := in.path
	model, ok := in.fullModel()
	if !ok {
		return nil
	}
	um := map[string]uint64{}
	for k, v := range model {
		um[k] = uint64(v)
	}
	// digit variables are not part of the reported model; evaluate them from
	// their atoms
	for _, a := range p.atoms {
		memo := map[int]uint64{}
		mag := a.mag.Eval(um, memo)
		for i := a.k - 1; i >= 0; i-- {
			um[a.digits[i].name] = '0' + mag%10
			mag /= 10
		}
	}
	vs = &ValidationSample{Harness: harness, Model: model, Chooses: map[string]int{}, Notes: map[string]string{}, Params: in.cfg.Params}
	for k, v := range p.chooses {
		vs.Chooses[k] = v
	}
	for k, v := range p.notes {
		vs.Notes[k] = v
	}
	memo := map[int]uint64{}
	for k, bs := range p.noteBytes {
		var sb strings.Builder
		for _, e := range bs {
			var c uint64
			switch e := e.(type) {
			case uint8:
				c = uint64(e)
			case symv:
				c = e.t.Eval(um, memo)
			default:
				return nil
			}
			fmt.Fprintf(&sb, "%02x ", c&0xff)
		}
		vs.Notes[k] = sb.String()
	}
	return vs
}

func (in *Interp) pathLabel() string {
	p := in.path
	if p == nil {
		return ""
	}
	var parts []string
	for _, k := range p.chooseSeq {
		parts = append(parts, fmt.Sprintf("%s=%d", k, p.chooses[k]))
	}
	keys := make([]string, 0, len(p.notes))
	for k := range p.notes {
		keys = append(keys, k)
	}
	sort.Strings(keys)
	for _, k := range keys {
		v := p.notes[k]
		if len(v) > 80 {
			v = v[:80]
		}
		parts = append(parts, k+"="+v)
	}
	return strings.Join(parts, " ")
}

// LogSolverTo records this interpreter's whole solver session (commands and
// answers) in a file.
func (in *Interp) LogSolverTo(path string) error {
	f, err := os.Create(path)
	if err != nil {
		return err
	}
	in.sv.log = f
	return nil
}

func (in *Interp) Close() {
	if in.sv != nil {
		in.sv.Close()
	}
}

// permuteMapOrder: optional nondeterministic map iteration order (C10).
func (in *Interp) permuteMapOrder(fr *frame, it *omapIter, t types.Type) {
	if !in.cfg.MapOrderPerms || in.path == nil || len(it.order) < 2 {
		return
	}
	n := len(it.order)
	if n > 4 {
		// rotation only
		r := in.choose(fmt.Sprintf("maprot@%s#%d", posString(in.prog, fr.callpos), in.path.pos), 2)
		if r == 1 {
			for i, j := 0, n-1; i < j; i, j = i+1, j-1 {
				it.order[i], it.order[j] = it.order[j], it.order[i]
			}
		}
		return
	}
	// full permutation via successive choices
	for i := 0; i < n-1; i++ {
		k := in.choose(fmt.Sprintf("mapperm@%d#%d", in.path.pos, i), n-i)
		it.order[i], it.order[i+k] = it.order[i+k], it.order[i]
	}
}
