package gosym

// Known findings: committed predicates over a harness's named nondet
// variables and choice labels.  A violation is suppressed only if every
// model of (path ∧ ¬assertion) satisfies a listed finding's predicate.

import (
	"bufio"
	"fmt"
	"go/types"
	"os"
	"strconv"
	"strings"
	"unicode"
)

type Finding struct {
	Property string
	Assert   string // assertion id this finding applies to ("" = any of the property)
	Where    string
	What     string
	expr     *fexpr
	Line     int
}

type FixedEntry struct {
	Property, Commit, What string
}

func LoadFindings(path string) ([]*Finding, []FixedEntry, error) {
	f, err := os.Open(path)
	if err != nil {
		if os.IsNotExist(err) {
			return nil, nil, nil
		}
		return nil, nil, err
	}
	defer f.Close()
	var out []*Finding
	var fixed []FixedEntry
	sc := bufio.NewScanner(f)
	sc.Buffer(make([]byte, 1<<20), 1<<20)
	ln := 0
	for sc.Scan() {
		ln++
		line := strings.TrimSpace(sc.Text())
		if line == "" || strings.HasPrefix(line, "#") {
			continue
		}
		switch {
		case strings.HasPrefix(line, "finding:"):
			kv, err := parseKV(strings.TrimPrefix(line, "finding:"))
			if err != nil {
				return nil, nil, fmt.Errorf("%s:%d: %v", path, ln, err)
			}
			fd := &Finding{Property: kv["property"], Assert: kv["assert"], Where: kv["where"], What: kv["what"], Line: ln}
			if fd.Property == "" || fd.Where == "" {
				return nil, nil, fmt.Errorf("%s:%d: finding needs property= and where=", path, ln)
			}
			e, err := parseFExpr(fd.Where)
			if err != nil {
				return nil, nil, fmt.Errorf("%s:%d: where: %v", path, ln, err)
			}
			fd.expr = e
			out = append(out, fd)
		case strings.HasPrefix(line, "fixed:"):
			rest := strings.Fields(strings.TrimPrefix(line, "fixed:"))
			fe := FixedEntry{}
			for i, r := range rest {
				if strings.HasPrefix(r, "property=") {
					fe.Property = strings.TrimPrefix(r, "property=")
				} else if fe.Commit == "" {
					fe.Commit = r
					fe.What = strings.Join(rest[i+1:], " ")
					break
				}
			}
			fixed = append(fixed, fe)
		default:
			return nil, nil, fmt.Errorf("%s:%d: unrecognised line", path, ln)
		}
	}
	return out, fixed, nil
}

func parseKV(s string) (map[string]string, error) {
	out := map[string]string{}
	i := 0
	for i < len(s) {
		for i < len(s) && s[i] == ' ' {
			i++
		}
		if i >= len(s) {
			break
		}
		j := strings.IndexByte(s[i:], '=')
		if j < 0 {
			return nil, fmt.Errorf("expected key=value near %q", s[i:])
		}
		key := s[i : i+j]
		i += j + 1
		var val string
		if i < len(s) && s[i] == '"' {
			// quoted, with \" escapes
			k := i + 1
			var sb strings.Builder
			for k < len(s) && s[k] != '"' {
				if s[k] == '\\' && k+1 < len(s) {
					k++
				}
				sb.WriteByte(s[k])
				k++
			}
			if k >= len(s) {
				return nil, fmt.Errorf("unterminated quote")
			}
			val = sb.String()
			i = k + 1
		} else {
			k := i
			for k < len(s) && s[k] != ' ' {
				k++
			}
			val = s[i:k]
			i = k
		}
		out[key] = val
	}
	return out, nil
}

// ---- predicate language ----

type fexpr struct {
	op   string // "ident","int","str","!","&&","||","==","!=","<","<=",">",">="
	name string
	ival int64
	sval string
	a, b *fexpr
}

type fparser struct {
	toks []string
	pos  int
}

func ftokenize(s string) ([]string, error) {
	var toks []string
	i := 0
	for i < len(s) {
		c := s[i]
		switch {
		case c == ' ' || c == '\t':
			i++
		case c == '\'':
			j := i + 1
			for j < len(s) && s[j] != '\'' {
				j++
			}
			if j >= len(s) {
				return nil, fmt.Errorf("unterminated string")
			}
			toks = append(toks, s[i:j+1])
			i = j + 1
		case unicode.IsLetter(rune(c)) || c == '_':
			j := i
			for j < len(s) && (unicode.IsLetter(rune(s[j])) || unicode.IsDigit(rune(s[j])) || s[j] == '_' || s[j] == '.') {
				j++
			}
			toks = append(toks, s[i:j])
			i = j
		case unicode.IsDigit(rune(c)) || (c == '-' && i+1 < len(s) && unicode.IsDigit(rune(s[i+1])) && signPosition(toks)):
			j := i + 1
			for j < len(s) && (unicode.IsDigit(rune(s[j])) || unicode.IsLetter(rune(s[j]))) {
				j++
			}
			toks = append(toks, s[i:j])
			i = j
		default:
			for _, op := range []string{"&&", "||", "==", "!=", "^=", "<=", ">=", "<", ">", "!", "(", ")", "+", "-", "%"} {
				if strings.HasPrefix(s[i:], op) {
					toks = append(toks, op)
					i += len(op)
					goto next
				}
			}
			return nil, fmt.Errorf("unexpected character %q", c)
		next:
		}
	}
	return toks, nil
}

// signPosition reports whether a '-' at this point starts a negative literal
// (rather than being the subtraction operator).
func signPosition(toks []string) bool {
	if len(toks) == 0 {
		return true
	}
	switch toks[len(toks)-1] {
	case "&&", "||", "==", "!=", "^=", "<=", ">=", "<", ">", "!", "(", "+", "-", "%":
		return true
	}
	return false
}

func parseFExpr(s string) (*fexpr, error) {
	toks, err := ftokenize(s)
	if err != nil {
		return nil, err
	}
	p := &fparser{toks: toks}
	e, err := p.or()
	if err != nil {
		return nil, err
	}
	if p.pos != len(p.toks) {
		return nil, fmt.Errorf("trailing tokens at %q", p.toks[p.pos])
	}
	return e, nil
}

func (p *fparser) peek() string {
	if p.pos < len(p.toks) {
		return p.toks[p.pos]
	}
	return ""
}

func (p *fparser) or() (*fexpr, error) {
	a, err := p.and()
	if err != nil {
		return nil, err
	}
	for p.peek() == "||" {
		p.pos++
		b, err := p.and()
		if err != nil {
			return nil, err
		}
		a = &fexpr{op: "||", a: a, b: b}
	}
	return a, nil
}

func (p *fparser) and() (*fexpr, error) {
	a, err := p.not()
	if err != nil {
		return nil, err
	}
	for p.peek() == "&&" {
		p.pos++
		b, err := p.not()
		if err != nil {
			return nil, err
		}
		a = &fexpr{op: "&&", a: a, b: b}
	}
	return a, nil
}

func (p *fparser) not() (*fexpr, error) {
	if p.peek() == "!" {
		p.pos++
		a, err := p.not()
		if err != nil {
			return nil, err
		}
		return &fexpr{op: "!", a: a}, nil
	}
	return p.cmp()
}

func (p *fparser) sum() (*fexpr, error) {
	a, err := p.prim()
	if err != nil {
		return nil, err
	}
	for p.peek() == "+" || p.peek() == "-" || p.peek() == "%" {
		op := p.peek()
		p.pos++
		b, err := p.prim()
		if err != nil {
			return nil, err
		}
		a = &fexpr{op: op, a: a, b: b}
	}
	return a, nil
}

func (p *fparser) cmp() (*fexpr, error) {
	a, err := p.sum()
	if err != nil {
		return nil, err
	}
	switch op := p.peek(); op {
	case "==", "!=", "^=", "<", "<=", ">", ">=":
		p.pos++
		b, err := p.sum()
		if err != nil {
			return nil, err
		}
		return &fexpr{op: op, a: a, b: b}, nil
	}
	return a, nil
}

func (p *fparser) prim() (*fexpr, error) {
	t := p.peek()
	if t == "" {
		return nil, fmt.Errorf("unexpected end")
	}
	p.pos++
	switch {
	case t == "(":
		e, err := p.or()
		if err != nil {
			return nil, err
		}
		if p.peek() != ")" {
			return nil, fmt.Errorf("expected )")
		}
		p.pos++
		return e, nil
	case t[0] == '\'':
		return &fexpr{op: "str", sval: t[1 : len(t)-1]}, nil
	case unicode.IsDigit(rune(t[0])) || t[0] == '-':
		v, err := strconv.ParseInt(t, 0, 64)
		if err != nil {
			u, err2 := strconv.ParseUint(t, 0, 64)
			if err2 != nil {
				return nil, err
			}
			v = int64(u)
		}
		return &fexpr{op: "int", ival: v}, nil
	case t == "true":
		return &fexpr{op: "int", ival: 1}, nil
	case t == "false":
		return &fexpr{op: "int", ival: 0}, nil
	}
	return &fexpr{op: "ident", name: t}, nil
}

// fval is the evaluation of a sub-expression on the current path.
type fval struct {
	undef  bool
	isStr  bool
	s      string
	t      *Term // 64-bit signed integer term, or Bool term
	isBool bool
}

func (in *Interp) evalF(e *fexpr) fval {
	st := in.st
	p := in.path
	switch e.op {
	case "int":
		return fval{t: st.Const(64, uint64(e.ival))}
	case "str":
		return fval{isStr: true, s: e.sval}
	case "ident":
		if lbl, ok := p.labels[e.name]; ok {
			return fval{isStr: true, s: lbl}
		}
		if c, ok := p.chooses[e.name]; ok {
			return fval{t: st.Const(64, uint64(c))}
		}
		if k, ok := p.varKinds[e.name]; ok {
			for _, v := range p.vars {
				if v.name == e.name {
					if k == types.Bool {
						return fval{t: v, isBool: true}
					}
					return fval{t: in.convTerm(v, k, types.Int64)}
				}
			}
		}
		return fval{undef: true}
	case "+", "-", "%":
		a, b := in.evalF(e.a), in.evalF(e.b)
		if a.undef || b.undef || a.isStr || b.isStr || a.isBool || b.isBool {
			return fval{undef: true}
		}
		if e.op == "+" {
			return fval{t: st.Bin(OpAdd, a.t, b.t)}
		}
		if e.op == "%" {
			return fval{t: st.Bin(OpSRem, a.t, b.t)}
		}
		return fval{t: st.Bin(OpSub, a.t, b.t)}
	case "!":
		a := in.evalF(e.a)
		if a.undef || !a.isBool {
			return fval{undef: true}
		}
		return fval{t: st.Not(a.t), isBool: true}
	case "&&", "||":
		a, b := in.evalF(e.a), in.evalF(e.b)
		// undefined operands make the whole predicate false (never widen)
		if a.undef || b.undef || !a.isBool || !b.isBool {
			if e.op == "||" {
				// an undefined side of a disjunction is false
				if !a.undef && a.isBool {
					return a
				}
				if !b.undef && b.isBool {
					return b
				}
			}
			return fval{undef: true}
		}
		if e.op == "&&" {
			return fval{t: st.And(a.t, b.t), isBool: true}
		}
		return fval{t: st.Or(a.t, b.t), isBool: true}
	default:
		a, b := in.evalF(e.a), in.evalF(e.b)
		if a.undef || b.undef {
			return fval{undef: true}
		}
		if a.isStr || b.isStr {
			if !(a.isStr && b.isStr) {
				return fval{undef: true}
			}
			var r bool
			switch e.op {
			case "==":
				r = a.s == b.s
			case "!=":
				r = a.s != b.s
			case "^=":
				r = strings.HasPrefix(a.s, b.s)
			default:
				return fval{undef: true}
			}
			return fval{t: st.Bool(r), isBool: true}
		}
		if a.isBool || b.isBool {
			if !(a.isBool && b.isBool) {
				// allow bool == 0/1
				conv := func(x fval) *Term {
					if x.isBool {
						return x.t
					}
					return st.Not(st.Eq(x.t, st.Const(64, 0)))
				}
				a.t, b.t = conv(a), conv(b)
			}
			switch e.op {
			case "==":
				return fval{t: st.Eq(a.t, b.t), isBool: true}
			case "!=":
				return fval{t: st.Not(st.Eq(a.t, b.t)), isBool: true}
			}
			return fval{undef: true}
		}
		var t *Term
		switch e.op {
		case "==":
			t = st.Eq(a.t, b.t)
		case "!=":
			t = st.Not(st.Eq(a.t, b.t))
		case "<":
			t = st.Slt(a.t, b.t)
		case "<=":
			t = st.Sle(a.t, b.t)
		case ">":
			t = st.Slt(b.t, a.t)
		case ">=":
			t = st.Sle(b.t, a.t)
		}
		return fval{t: t, isBool: true}
	}
}

// findingTerm returns the disjunction of the predicates of all findings
// that apply to assertion id on this path, or nil.
func (in *Interp) findingTerm(id string) *Term {
	var acc *Term
	in.path.kfCandidates = in.path.kfCandidates[:0]
	for _, f := range in.cfg.Findings {
		if f.Assert != "" && f.Assert != id {
			continue
		}
		v := in.evalF(f.expr)
		if v.undef || !v.isBool || v.t == in.st.ff {
			continue
		}
		in.path.kfCandidates = append(in.path.kfCandidates, f)
		if acc == nil {
			acc = v.t
		} else {
			acc = in.st.Or(acc, v.t)
		}
	}
	return acc
}

func (in *Interp) noteKnownHits(id string) {
	for _, f := range in.path.kfCandidates {
		in.path.knownHit[fmt.Sprintf("property=%s %s", f.Property, f.What)] = true
	}
}
