package gosym

// Environment models: in-memory file system, embedded data, JSON decode,
// time, and the vrt (nondet/assume/assert) API.

import (
	"bytes"
	"compress/gzip"
	"encoding/json"
	"fmt"
	"go/types"
	"io"
	"os"
	"reflect"
	"strings"
	"sync"

	"golang.org/x/tools/go/ssa"
)

type openFile struct {
	path   string
	pos    int
	closed bool
	append bool
	isDir  bool // opened read-only on a directory: reads fail
}

func (fr *frame) fileOf(v value) *openFile {
	p, ok := v.(*value)
	if !ok || p == nil {
		panic(runtimeError("runtime error: invalid memory address or nil pointer dereference (nil *os.File)"))
	}
	n, ok := (*p).(*native)
	if !ok || n.kind != "file" {
		inconclusive("operation on unmodelled *os.File")
	}
	return n.obj.(*openFile)
}

func (fr *frame) openFileModel(name string, flag int) value {
	env := fr.i.env
	if env.fsFail[name] {
		return tuple{(*value)(nil), fr.i.mkError("open " + name + ": permission denied")}
	}
	if env.isDir(name) {
		if flag&(os.O_WRONLY|os.O_RDWR) != 0 {
			return tuple{(*value)(nil), fr.i.mkError("open " + name + ": is a directory")}
		}
		// a directory can be opened read-only; reading from it fails
		cell := new(value)
		*cell = &native{kind: "file", obj: &openFile{path: name, isDir: true}}
		return tuple{cell, nilError()}
	}
	if !env.isDir(parentDir(name)) {
		return tuple{(*value)(nil), fr.i.mkError("open " + name + ": no such file or directory")}
	}
	f := env.files[name]
	if f == nil || !f.exists {
		if flag&os.O_CREATE == 0 {
			return tuple{(*value)(nil), fr.i.mkError("open " + name + ": no such file or directory")}
		}
		f = &memFile{exists: true}
		env.files[name] = f
	}
	if flag&os.O_TRUNC != 0 {
		f.data = nil
	}
	cell := new(value)
	*cell = &native{kind: "file", obj: &openFile{path: name, append: flag&os.O_APPEND != 0}}
	return tuple{cell, nilError()}
}

// The modelled tree: "/mem" (what vrt.TempDir names) is a directory, further
// directories come from vrt.MkDir; every other path is a file or absent.
// Paths outside /mem keep the older flat behaviour (any parent exists).
func (e *envModel) isDir(name string) bool {
	if name == "/mem" || e.dirs[name] {
		return true
	}
	return !strings.HasPrefix(name, "/mem/") && (name == "" || name == "/" || name == ".")
}

func parentDir(name string) string {
	if !strings.HasPrefix(name, "/mem/") {
		return "/"
	}
	i := strings.LastIndex(name, "/")
	return name[:i]
}

func (fr *frame) pathArg(v value) string {
	switch s := v.(type) {
	case string:
		return s
	case *symString:
		return fr.concretizeString(s).(string)
	}
	panic("pathArg")
}

var (
	embedMu    sync.Mutex
	embedCache = map[string][]byte{}
	jsonMu     sync.Mutex
	jsonCache  = map[string]value{}
)

func init() {
	I := intrinsics
	I["os.OpenFile"] = func(fr *frame, args []value) (value, bool) {
		return fr.openFileModel(fr.pathArg(args[0]), int(fr.concreteInt(args[1]))), true
	}
	I["os.Create"] = func(fr *frame, args []value) (value, bool) {
		return fr.openFileModel(fr.pathArg(args[0]), os.O_RDWR|os.O_CREATE|os.O_TRUNC), true
	}
	I["os.Open"] = func(fr *frame, args []value) (value, bool) {
		return fr.openFileModel(fr.pathArg(args[0]), os.O_RDONLY), true
	}
	I["(*os.File).Write"] = func(fr *frame, args []value) (value, bool) {
		of := fr.fileOf(args[0])
		if of.closed {
			return tuple{0, fr.i.mkError("write: file already closed")}, true
		}
		f := fr.i.env.files[of.path]
		b := args[1].([]value)
		if of.append {
			of.pos = len(f.data)
		}
		for len(f.data) < of.pos {
			f.data = append(f.data, uint8(0))
		}
		for i, e := range b {
			if of.pos+i < len(f.data) {
				f.data[of.pos+i] = e
			} else {
				f.data = append(f.data, e)
			}
		}
		of.pos += len(b)
		return tuple{len(b), nilError()}, true
	}
	I["(*os.File).Read"] = func(fr *frame, args []value) (value, bool) {
		of := fr.fileOf(args[0])
		if of.closed {
			return tuple{0, fr.i.mkError("read: file already closed")}, true
		}
		if of.isDir {
			return tuple{0, fr.i.mkError("read " + of.path + ": is a directory")}, true
		}
		f := fr.i.env.files[of.path]
		dst := args[1].([]value)
		if f == nil || of.pos >= len(f.data) {
			if len(dst) == 0 {
				return tuple{0, nilError()}, true
			}
			return tuple{0, fr.i.ioEOF()}, true
		}
		n := 0
		for n < len(dst) && of.pos+n < len(f.data) {
			fr.i.undo = append(fr.i.undo, undoRec{addr: &dst[n], old: dst[n]})
			dst[n] = f.data[of.pos+n]
			n++
		}
		of.pos += n
		return tuple{n, nilError()}, true
	}
	I["(*os.File).Seek"] = func(fr *frame, args []value) (value, bool) {
		of := fr.fileOf(args[0])
		off := int(fr.concreteInt(args[1]))
		whence := int(fr.concreteInt(args[2]))
		size := 0
		if f := fr.i.env.files[of.path]; f != nil {
			size = len(f.data)
		}
		switch whence {
		case 0:
			of.pos = off
		case 1:
			of.pos += off
		case 2:
			of.pos = size + off
		}
		if of.pos < 0 {
			of.pos = 0
			return tuple{int64(0), fr.i.mkError("seek: negative position")}, true
		}
		return tuple{int64(of.pos), nilError()}, true
	}
	I["(*os.File).WriteString"] = func(fr *frame, args []value) (value, bool) {
		return I["(*os.File).Write"](fr, []value{args[0], strBytes(args[1])})
	}
	I["(*os.File).Close"] = func(fr *frame, args []value) (value, bool) {
		of := fr.fileOf(args[0])
		if of.closed {
			return fr.i.mkError("close: file already closed"), true
		}
		of.closed = true
		return nilError(), true
	}
	I["(*os.File).Sync"] = func(fr *frame, args []value) (value, bool) { return nilError(), true }
	I["(*os.File).Name"] = func(fr *frame, args []value) (value, bool) { return fr.fileOf(args[0]).path, true }
	I["os.Stat"] = func(fr *frame, args []value) (value, bool) {
		name := fr.pathArg(args[0])
		env := fr.i.env
		f := env.files[name]
		if env.isDir(name) || (f != nil && f.exists && env.isDir(parentDir(name))) {
			// the FileInfo itself is not modelled: a nil interface (callers
			// that inspect it end inconclusive through the nil method call)
			return tuple{iface{}, nilError()}, true
		}
		return tuple{iface{}, fr.i.mkError("stat " + name + ": no such file or directory")}, true
	}
	I["os.ReadFile"] = func(fr *frame, args []value) (value, bool) {
		name := fr.pathArg(args[0])
		if fr.i.env.isDir(name) {
			return tuple{[]value(nil), fr.i.mkError("read " + name + ": is a directory")}, true
		}
		f := fr.i.env.files[name]
		if f == nil || !f.exists || fr.i.env.fsFail[name] {
			return tuple{[]value(nil), fr.i.mkError("open " + name + ": no such file or directory")}, true
		}
		cp := make([]value, len(f.data))
		copy(cp, f.data)
		return tuple{cp, nilError()}, true
	}
	I["os.WriteFile"] = func(fr *frame, args []value) (value, bool) {
		name := fr.pathArg(args[0])
		if fr.i.env.fsFail[name] {
			return fr.i.mkError("open " + name + ": permission denied"), true
		}
		if fr.i.env.isDir(name) || !fr.i.env.isDir(parentDir(name)) {
			return fr.i.mkError("open " + name + ": cannot create"), true
		}
		b := args[1].([]value)
		cp := make([]value, len(b))
		copy(cp, b)
		fr.i.env.files[name] = &memFile{data: cp, exists: true}
		return nilError(), true
	}
	I["os.Remove"] = func(fr *frame, args []value) (value, bool) {
		name := fr.pathArg(args[0])
		if f := fr.i.env.files[name]; f != nil && f.exists {
			f.exists = false
			return nilError(), true
		}
		return fr.i.mkError("remove " + name + ": no such file or directory"), true
	}

	// ---- embedded instruction table ----
	I["github.com/HobbyOSs/gosk/pkg/asmdb.decompressGzip"] = func(fr *frame, args []value) (value, bool) {
		data, err := fr.i.embeddedGunzip()
		if err != nil {
			inconclusive("cannot read embedded instruction table: %v", err)
		}
		return tuple{&native{kind: "bytes", obj: data}, nilError()}, true
	}
	I["encoding/json.Unmarshal"] = func(fr *frame, args []value) (value, bool) {
		var data []byte
		switch d := args[0].(type) {
		case *native:
			data = d.obj.([]byte)
		case []value:
			b, ok := bytesOf(d)
			if !ok {
				inconclusive("json.Unmarshal of symbolic bytes")
			}
			data = b
		}
		target := args[1].(iface)
		pt, ok := target.t.Underlying().(*types.Pointer)
		if !ok {
			return fr.i.mkError("json: Unmarshal(non-pointer)"), true
		}
		key := fmt.Sprintf("%d/%s", len(data), types.TypeString(pt.Elem(), nil))
		jsonMu.Lock()
		v, hit := jsonCache[key]
		if !hit {
			var generic interface{}
			dec := json.NewDecoder(bytes.NewReader(data))
			dec.UseNumber()
			if err := dec.Decode(&generic); err != nil {
				jsonMu.Unlock()
				return fr.i.mkError("json: " + err.Error()), true
			}
			v = jsonToValue(generic, pt.Elem())
			jsonCache[key] = v
		}
		jsonMu.Unlock()
		// shallow clone of the top two levels so that per-interpreter
		// updates of the table's map do not touch the shared graph
		v = cloneTop(v, 2)
		fr.i.store(pt.Elem(), target.v.(*value), v)
		return nilError(), true
	}
	I["time.Now"] = func(fr *frame, args []value) (value, bool) {
		inconclusive("time.Now not modelled")
		return nil, true
	}
}

func cloneTop(v value, depth int) value {
	if depth == 0 {
		return v
	}
	switch x := v.(type) {
	case structure:
		out := make(structure, len(x))
		for i := range x {
			out[i] = cloneTop(x[i], depth-1)
		}
		return out
	case *omap:
		if x == nil {
			return x
		}
		m := &omap{keyType: x.keyType, index: make(map[int][]int, len(x.index)), n: x.n}
		m.keys = append([]value(nil), x.keys...)
		m.vals = append([]value(nil), x.vals...)
		m.live = append([]bool(nil), x.live...)
		for h, l := range x.index {
			m.index[h] = append([]int(nil), l...)
		}
		return m
	}
	return v
}

// jsonToValue converts a generic JSON tree into interpreter values of Go
// type t, following encoding/json's rules for the shapes gosk uses.
func jsonToValue(j interface{}, t types.Type) value {
	if j == nil {
		return zero(t)
	}
	switch u := t.Underlying().(type) {
	case *types.Pointer:
		cell := new(value)
		*cell = jsonToValue(j, u.Elem())
		return cell
	case *types.Struct:
		out := zero(t).(structure)
		obj, ok := j.(map[string]interface{})
		if !ok {
			return out
		}
		for i := 0; i < u.NumFields(); i++ {
			f := u.Field(i)
			if !f.Exported() {
				continue
			}
			name := f.Name()
			tag := reflect.StructTag(u.Tag(i)).Get("json")
			if tag == "-" {
				continue
			}
			if c := strings.Split(tag, ",")[0]; c != "" {
				name = c
			}
			val, present := obj[name]
			if !present {
				// case-insensitive match, as encoding/json does
				for k, vv := range obj {
					if strings.EqualFold(k, name) {
						val, present = vv, true
						break
					}
				}
			}
			if present {
				out[i] = jsonToValue(val, f.Type())
			}
		}
		return out
	case *types.Slice:
		arr, ok := j.([]interface{})
		if !ok {
			return zero(t)
		}
		out := make([]value, len(arr), len(arr))
		for i, e := range arr {
			out[i] = jsonToValue(e, u.Elem())
		}
		return out
	case *types.Map:
		obj, ok := j.(map[string]interface{})
		if !ok {
			return zero(t)
		}
		m := makeMap(u.Key(), int64(len(obj)))
		// deterministic order: sorted keys
		keys := make([]string, 0, len(obj))
		for k := range obj {
			keys = append(keys, k)
		}
		sortStrings(keys)
		for _, k := range keys {
			kv := value(k)
			h := hash(u.Key(), u.Key(), kv)
			idx := len(m.keys)
			m.keys = append(m.keys, kv)
			m.vals = append(m.vals, jsonToValue(obj[k], u.Elem()))
			m.live = append(m.live, true)
			m.index[h] = append(m.index[h], idx)
			m.n++
		}
		return m
	case *types.Basic:
		switch {
		case u.Kind() == types.String:
			if s, ok := j.(string); ok {
				return s
			}
			return ""
		case u.Kind() == types.Bool:
			if b, ok := j.(bool); ok {
				return b
			}
			return false
		case u.Info()&types.IsInteger != 0:
			if n, ok := j.(json.Number); ok {
				i, _ := n.Int64()
				return mkInt(u.Kind(), uint64(i))
			}
			return mkInt(u.Kind(), 0)
		case u.Info()&types.IsFloat != 0:
			if n, ok := j.(json.Number); ok {
				f, _ := n.Float64()
				if u.Kind() == types.Float32 {
					return float32(f)
				}
				return f
			}
		}
	case *types.Interface:
		switch x := j.(type) {
		case string:
			return iface{t: types.Typ[types.String], v: x}
		case bool:
			return iface{t: types.Typ[types.Bool], v: x}
		}
	}
	inconclusive("json decode into unsupported type %s", t)
	return nil
}

func sortStrings(a []string) {
	for i := 1; i < len(a); i++ {
		for j := i; j > 0 && a[j] < a[j-1]; j-- {
			a[j], a[j-1] = a[j-1], a[j]
		}
	}
}

func (in *Interp) embeddedGunzip() ([]byte, error) {
	embedMu.Lock()
	defer embedMu.Unlock()
	path := in.cfg.embedPath
	if d, ok := embedCache[path]; ok {
		return d, nil
	}
	f, err := os.Open(path)
	if err != nil {
		return nil, err
	}
	defer f.Close()
	zr, err := gzip.NewReader(f)
	if err != nil {
		return nil, err
	}
	d, err := io.ReadAll(zr)
	if err != nil {
		return nil, err
	}
	embedCache[path] = d
	return d, nil
}

// ---------------------------------------------------------------------
// vrt: the harness API

var vrtIntrinsics = map[string]intrinsicFn{}

func (fr *frame) nondet(nameV value, k types.BasicKind) value {
	in := fr.i
	p := in.path
	if p == nil {
		inconclusive("nondet outside a path")
	}
	name, ok := nameV.(string)
	if !ok {
		inconclusive("nondet with symbolic name")
	}
	w := kindWidth(k)
	if k == types.Bool {
		w = 0
	}
	t := in.st.Var(name, w)
	if _, seen := p.varKinds[name]; !seen {
		p.varKinds[name] = k
		p.vars = append(p.vars, t)
	}
	return symv{t, k}
}

func init() {
	V := vrtIntrinsics
	for name, k := range map[string]types.BasicKind{
		"Int64": types.Int64, "Int32": types.Int32, "Int16": types.Int16, "Int8": types.Int8, "Int": types.Int,
		"Uint64": types.Uint64, "Uint32": types.Uint32, "Uint16": types.Uint16, "Uint8": types.Uint8, "Bool": types.Bool,
	} {
		k := k
		V[name] = func(fr *frame, args []value) (value, bool) { return fr.nondet(args[0], k), true }
	}
	// IntRange(name, lo, hi) int64: lo <= v <= hi, with interval facts when lo >= 0
	V["IntRange"] = func(fr *frame, args []value) (value, bool) {
		in := fr.i
		lo, hi := args[1].(int64), args[2].(int64)
		name := args[0].(string)
		p := in.path
		var t *Term
		if lo >= 0 {
			t = in.st.VarRange(name, 64, uint64(lo), uint64(hi))
		} else {
			t = in.st.VarRange(name, 64, 0, ^uint64(0))
		}
		if _, seen := p.varKinds[name]; !seen {
			p.varKinds[name] = types.Int64
			p.vars = append(p.vars, t)
			st := in.st
			c := st.mk(OpBAnd, 0, 0, "", []*Term{
				st.mk(OpSle, 0, 0, "", []*Term{st.Const(64, uint64(lo)), t}),
				st.mk(OpSle, 0, 0, "", []*Term{t, st.Const(64, uint64(hi))})})
			in.sv.Assert(c)
			p.pc = append(p.pc, c)
		}
		return in.mkSym(t, types.Int64), true
	}
	// Byte(name, lo, hi) byte
	V["Byte"] = func(fr *frame, args []value) (value, bool) {
		in := fr.i
		lo, hi := uint64(args[1].(uint8)), uint64(args[2].(uint8))
		name := args[0].(string)
		p := in.path
		t := in.st.VarRange(name, 8, lo, hi)
		if _, seen := p.varKinds[name]; !seen {
			p.varKinds[name] = types.Uint8
			p.vars = append(p.vars, t)
			c := in.st.RawRange(t, lo, hi)
			in.sv.Assert(c)
			p.pc = append(p.pc, c)
		}
		return in.mkSym(t, types.Uint8), true
	}
	V["Choose"] = func(fr *frame, args []value) (value, bool) {
		name, _ := args[0].(string)
		return fr.i.choose(name, int(fr.concreteInt(args[1]))), true
	}
	V["Param"] = func(fr *frame, args []value) (value, bool) {
		name, _ := args[0].(string)
		return fr.i.cfg.Params[name], true
	}
	V["ChooseStr"] = func(fr *frame, args []value) (value, bool) {
		name, _ := args[0].(string)
		opts := args[1].([]value)
		i := fr.i.choose(name, len(opts))
		s, _ := opts[i].(string)
		fr.i.path.labels[name] = s
		return opts[i], true
	}
	V["Assume"] = func(fr *frame, args []value) (value, bool) {
		in := fr.i
		switch c := args[0].(type) {
		case bool:
			if !c {
				panic(pathEnd{kind: "assume"})
			}
		case symv:
			if v, ok := in.path.lookupKnown(c.t); ok {
				if !v {
					panic(pathEnd{kind: "assume"})
				}
				return nil, true
			}
			r := in.checkWith(c.t, in.cfg.FeasTimeoutMs)
			if r == Unsat {
				panic(pathEnd{kind: "assume"})
			}
			if r == Unknown {
				inconclusive("solver unknown on Assume")
			}
			in.assume(c.t)
		}
		return nil, true
	}
	V["Assert"] = func(fr *frame, args []value) (value, bool) {
		id, _ := args[1].(string)
		fr.assert(args[0], id)
		return nil, true
	}
	V["Reach"] = func(fr *frame, args []value) (value, bool) {
		id, _ := args[0].(string)
		fr.i.path.reached[id] = true
		return nil, true
	}
	V["Note"] = func(fr *frame, args []value) (value, bool) {
		k, _ := args[0].(string)
		fr.i.path.notes[k] = strOrDebug(args[1])
		return nil, true
	}
	V["NoteBytes"] = func(fr *frame, args []value) (value, bool) {
		k, _ := args[0].(string)
		b := args[1].([]value)
		cp := make([]value, len(b))
		copy(cp, b)
		fr.i.path.noteBytes[k] = cp
		return nil, true
	}
	V["Symbolic"] = func(fr *frame, args []value) (value, bool) { return true, true }
	V["Diag"] = func(fr *frame, args []value) (value, bool) {
		env := fr.i.env
		out := make([]value, 0, len(env.diag)+len(env.stdout))
		for _, d := range env.diag {
			out = append(out, d)
		}
		for _, d := range env.stdout {
			out = append(out, "STDOUT: "+d)
		}
		return out, true
	}
	V["ResetDiag"] = func(fr *frame, args []value) (value, bool) {
		fr.i.env.diag = nil
		fr.i.env.stdout = nil
		return nil, true
	}
	V["TempFile"] = func(fr *frame, args []value) (value, bool) {
		name, _ := args[0].(string)
		return "/mem/" + name, true
	}
	V["TempDir"] = func(fr *frame, args []value) (value, bool) { return "/mem", true }
	V["MkDir"] = func(fr *frame, args []value) (value, bool) {
		name, _ := args[0].(string)
		if fr.i.env.dirs == nil {
			fr.i.env.dirs = map[string]bool{}
		}
		fr.i.env.dirs[name] = true
		return nil, true
	}
	// RunCLI(args...) (status, output): runs the command's main() with the
	// argument vector, as a process would: fresh flag state, os.Exit and
	// panics end the run and become the exit status, printed text is captured.
	V["RunCLI"] = func(fr *frame, args []value) (value, bool) {
		return fr.runCLI(args[0]), true
	}
	V["FailPath"] = func(fr *frame, args []value) (value, bool) {
		name, _ := args[0].(string)
		fr.i.env.fsFail[name] = true
		return nil, true
	}
	V["SetArgs"] = func(fr *frame, args []value) (value, bool) {
		ss, _ := valueToStrSlice(args[0])
		fr.i.setOsArgs(ss)
		return nil, true
	}
	// Try(f) string: runs f, capturing panics and os.Exit as an outcome.
	V["Try"] = func(fr *frame, args []value) (value, bool) {
		return fr.try(args[0]), true
	}
	// Once(key, f) any: runs the concrete, deterministic computation f once
	// per cell and returns the same result object on every later path.  The
	// heap effects of f are kept for the cell (undone when the cell ends);
	// everything done to the result afterwards is rolled back per path as usual.
	V["Once"] = func(fr *frame, args []value) (value, bool) {
		in := fr.i
		key, _ := args[0].(string)
		if in.path == nil {
			inconclusive("Once outside a path")
		}
		if v, ok := in.onceCache[key]; ok {
			return v, true
		}
		mark := len(in.undo)
		pos := in.path.pos
		nvars := len(in.path.vars)
		res := in.call(fr, 0, args[1], nil)
		if in.path.pos != pos || len(in.path.vars) != nvars {
			inconclusive("vrt.Once(%s): the memoised computation made symbolic decisions", key)
		}
		// The stores made by f are kept (not rolled back): f must be a pure
		// computation over fresh objects (the PEG parsers are: all their state
		// lives in the per-call parser object).  Dropping the records also
		// releases everything they retain.
		for i := mark; i < len(in.undo); i++ {
			in.undo[i] = undoRec{}
		}
		in.undo = in.undo[:mark]
		in.onceCache[key] = res
		return res, true
	}
	// Or / And: symbolic disjunction / conjunction without forking
	V["Or"] = func(fr *frame, args []value) (value, bool) {
		in := fr.i
		acc := in.st.ff
		for _, a := range variadic(args[0]) {
			acc = in.st.Or(acc, in.toTerm(a, types.Bool))
		}
		return in.mkSym(acc, types.Bool), true
	}
	V["And"] = func(fr *frame, args []value) (value, bool) {
		in := fr.i
		acc := in.st.tt
		for _, a := range variadic(args[0]) {
			acc = in.st.And(acc, in.toTerm(a, types.Bool))
		}
		return in.mkSym(acc, types.Bool), true
	}
	// Abs64(v) int64: |v| without forking (ite)
	V["Abs64"] = func(fr *frame, args []value) (value, bool) {
		in := fr.i
		t := in.toTerm(args[0], types.Int64)
		neg := in.st.Slt(t, in.st.Const(64, 0))
		return in.mkSym(in.st.Ite(neg, in.st.Un(OpNeg, t), t), types.Int64), true
	}
	// Ite(c, a, b) int64 without forking
	V["Ite"] = func(fr *frame, args []value) (value, bool) {
		in := fr.i
		c := in.toTerm(args[0], types.Bool)
		return in.mkSym(in.st.Ite(c, in.toTerm(args[1], types.Int64), in.toTerm(args[2], types.Int64)), types.Int64), true
	}
	// Isolated(f) []byte: runs f and then rolls the whole heap back to the
	// state before the call (file system and diagnostics included), returning a
	// copy of the result: "what f yields in a fresh process".
	V["Isolated"] = func(fr *frame, args []value) (value, bool) {
		in := fr.i
		mark := len(in.undo)
		env := in.env
		savedFiles := map[string]*memFile{}
		for k, f := range env.files {
			cp := *f
			cp.data = append([]value(nil), f.data...)
			savedFiles[k] = &cp
		}
		savedDiag := append([]string(nil), env.diag...)
		savedOut := append([]string(nil), env.stdout...)
		res := in.call(fr, 0, args[0], nil)
		var cp []value
		if sl, ok := res.([]value); ok && sl != nil {
			cp = append([]value{}, sl...)
		}
		in.rollback(mark)
		env.files, env.diag, env.stdout = savedFiles, savedDiag, savedOut
		return cp, true
	}
	V["IsConcrete"] = func(fr *frame, args []value) (value, bool) { return false, true }
}

func (fr *frame) try(f value) (out value) {
	in := fr.i
	depth := in.depth
	defer func() {
		if p := recover(); p != nil {
			if _, isExit := p.(exitPanic); !isExit && engineAbort(p) {
				if in.abortStack == "" {
					in.abortStack = fr.stackAt()
				}
				panic(p)
			}
			in.depth = depth
			switch p := p.(type) {
			case exitPanic:
				out = fmt.Sprintf("exit:%d", int(p))
			default:
				out = describePanic(p)
			}
		}
	}()
	in.call(fr, 0, f, nil)
	return "ok"
}

func (fr *frame) runCLI(argv value) value {
	in := fr.i
	mainPkg := in.prog.ImportedPackage(in.cfg.CLIPackage)
	if mainPkg == nil || mainPkg.Func("main") == nil {
		inconclusive("vrt.RunCLI: command package %q not loaded", in.cfg.CLIPackage)
	}
	ss, ok := valueToStrSlice(argv)
	if !ok {
		inconclusive("vrt.RunCLI: argument vector must be concrete strings")
	}
	in.setOsArgs(append([]string{"gosk"}, ss...))
	// a fresh process: the flag package's state (CommandLine, Usage) is
	// re-initialised from os.Args, the command's own package state too
	for _, p := range []string{"flag"} {
		if fp := in.prog.ImportedPackage(p); fp != nil {
			in.forceInit(fr, fp)
		}
	}
	env := in.env
	env.capture, env.cliOut = true, nil
	code := 0
	func() {
		depth := in.depth
		defer func() {
			env.capture = false
			if p := recover(); p != nil {
				if _, isExit := p.(exitPanic); !isExit && engineAbort(p) {
					if in.abortStack == "" {
						in.abortStack = fr.stackAt()
					}
					panic(p)
				}
				in.depth = depth
				switch p := p.(type) {
				case exitPanic:
					code = int(p) & 0xff
				default:
					// an uncaught Go panic ends the process with status 2
					code = 2
					env.cliOut = append(env.cliOut, "panic: "+describePanic(p))
				}
			}
		}()
		in.callSSA(fr, 0, mainPkg.Func("main"), nil, nil)
	}()
	var out value = ""
	for _, piece := range env.cliOut {
		out = concat(out, piece)
	}
	env.cliOut = nil
	return tuple{code, out}
}

// forceInit runs a package's own initialiser again (its guard reset), with
// the initialisers of its imports left as they are.
func (in *Interp) forceInit(fr *frame, pkg *ssa.Package) {
	if g, ok := pkg.Members["init$guard"].(*ssa.Global); ok {
		in.store(deref(g.Type()), in.globals[g], false)
	}
	fi := in.info(pkg.Func("init"))
	saved := fi.initAllowed
	fi.initAllowed = true
	defer func() { fi.initAllowed = saved }()
	in.callSSA(fr, 0, pkg.Func("init"), nil, nil)
}

// ioEOF is the value of the package variable io.EOF (callers compare
// errors with it by identity).
func (in *Interp) ioEOF() value {
	if pkg := in.prog.ImportedPackage("io"); pkg != nil {
		if g, ok := pkg.Members["EOF"].(*ssa.Global); ok {
			if cell := in.globals[g]; cell != nil {
				if v, ok := (*cell).(iface); ok && v.t != nil {
					return v
				}
			}
		}
	}
	inconclusive("io.EOF not initialised")
	return nil
}

func (in *Interp) setOsArgs(ss []string) {
	osPkg := in.prog.ImportedPackage("os")
	if osPkg == nil {
		return
	}
	g, ok := osPkg.Members["Args"].(*ssa.Global)
	if !ok {
		return
	}
	in.store(deref(g.Type()), in.globals[g], strSliceToValue(ss))
}
