// Portions adapted from golang.org/x/tools/go/ssa/interp (ops.go).
// Copyright 2013 The Go Authors. All rights reserved.
// Use of this source code is governed by a BSD-style license.

package gosym

import (
	"fmt"
	"go/constant"
	"go/token"
	"go/types"
	"math"
	"unsafe"

	"golang.org/x/tools/go/ssa"
)

// If the target program panics, the interpreter panics with this type.
type targetPanic struct {
	v value
}

// If the target program calls exit, the interpreter panics with this type.
type exitPanic int

// runtimeError is a Go run-time panic raised by the engine on behalf of the
// target (nil dereference, index out of range, division by zero, ...).
type runtimeError string

func (e runtimeError) Error() string { return string(e) }

func constValue(c *ssa.Const) value {
	if c.Value == nil {
		return zero(c.Type()) // typed zero
	}
	if t, ok := c.Type().Underlying().(*types.Basic); ok {
		switch t.Kind() {
		case types.Bool, types.UntypedBool:
			return constant.BoolVal(c.Value)
		case types.Int, types.UntypedInt:
			return int(c.Int64())
		case types.Int8:
			return int8(c.Int64())
		case types.Int16:
			return int16(c.Int64())
		case types.Int32, types.UntypedRune:
			return int32(c.Int64())
		case types.Int64:
			return c.Int64()
		case types.Uint:
			return uint(c.Uint64())
		case types.Uint8:
			return uint8(c.Uint64())
		case types.Uint16:
			return uint16(c.Uint64())
		case types.Uint32:
			return uint32(c.Uint64())
		case types.Uint64:
			return c.Uint64()
		case types.Uintptr:
			return uintptr(c.Uint64())
		case types.Float32:
			return float32(c.Float64())
		case types.Float64, types.UntypedFloat:
			return c.Float64()
		case types.Complex64:
			return complex64(c.Complex128())
		case types.Complex128, types.UntypedComplex:
			return c.Complex128()
		case types.String, types.UntypedString:
			if c.Value.Kind() == constant.String {
				return constant.StringVal(c.Value)
			}
			return string(rune(c.Int64()))
		}
	}
	panic(fmt.Sprintf("constValue: %s", c))
}

func asInt64(x value) int64 {
	if b, ok := intBits(x); ok {
		return int64(b)
	}
	if _, ok := x.(symv); ok {
		panic("asInt64 on symbolic value (engine bug: concretize first)")
	}
	panic(fmt.Sprintf("cannot convert %T to int64", x))
}

// zero returns a new "zero" value of the specified type.
func zero(t types.Type) value {
	switch t := t.(type) {
	case *types.Basic:
		if t.Kind() == types.UntypedNil {
			panic("untyped nil has no zero value")
		}
		if t.Info()&types.IsUntyped != 0 {
			t = types.Default(t).(*types.Basic)
		}
		switch t.Kind() {
		case types.Bool:
			return false
		case types.Int:
			return int(0)
		case types.Int8:
			return int8(0)
		case types.Int16:
			return int16(0)
		case types.Int32:
			return int32(0)
		case types.Int64:
			return int64(0)
		case types.Uint:
			return uint(0)
		case types.Uint8:
			return uint8(0)
		case types.Uint16:
			return uint16(0)
		case types.Uint32:
			return uint32(0)
		case types.Uint64:
			return uint64(0)
		case types.Uintptr:
			return uintptr(0)
		case types.Float32:
			return float32(0)
		case types.Float64:
			return float64(0)
		case types.Complex64:
			return complex64(0)
		case types.Complex128:
			return complex128(0)
		case types.String:
			return ""
		case types.UnsafePointer:
			return unsafe.Pointer(nil)
		default:
			panic(fmt.Sprint("zero for unexpected type:", t))
		}
	case *types.Pointer:
		return (*value)(nil)
	case *types.Array:
		a := make(array, t.Len())
		for i := range a {
			a[i] = zero(t.Elem())
		}
		return a
	case *types.Named:
		return zero(t.Underlying())
	case *types.Alias:
		return zero(types.Unalias(t))
	case *types.Interface:
		return iface{}
	case *types.Slice:
		return []value(nil)
	case *types.Struct:
		s := make(structure, t.NumFields())
		for i := range s {
			s[i] = zero(t.Field(i).Type())
		}
		return s
	case *types.Tuple:
		if t.Len() == 1 {
			return zero(t.At(0).Type())
		}
		s := make(tuple, t.Len())
		for i := range s {
			s[i] = zero(t.At(i).Type())
		}
		return s
	case *types.Chan:
		return (*native)(nil)
	case *types.Map:
		return (*omap)(nil)
	case *types.Signature:
		return (*ssa.Function)(nil)
	case *types.TypeParam:
		panic("zero of type parameter (generic function not instantiated)")
	}
	panic(fmt.Sprint("zero: unexpected ", t))
}

// ---- symbolic helpers ----

func (in *Interp) toTerm(x value, k types.BasicKind) *Term {
	switch x := x.(type) {
	case symv:
		return x.t
	case bool:
		return in.st.Bool(x)
	}
	b, ok := intBits(x)
	if !ok {
		panic(fmt.Sprintf("toTerm: %T", x))
	}
	return in.st.Const(kindWidth(k), b)
}

// mkSym boxes a term as a value of kind k, concretising constants.
func (in *Interp) mkSym(t *Term, k types.BasicKind) value {
	switch t.op {
	case OpTrue:
		return true
	case OpFalse:
		return false
	case OpConst:
		if kindSigned(k) {
			return mkInt(k, uint64(sextTo64(t.val, t.w)))
		}
		return mkInt(k, t.val)
	}
	return symv{t, k}
}

// convTerm converts a term of kind from to kind to (integer kinds).
func (in *Interp) convTerm(t *Term, from, to types.BasicKind) *Term {
	wf, wt := kindWidth(from), kindWidth(to)
	switch {
	case wt == wf:
		return t
	case wt < wf:
		return in.st.Extract(t, wt-1, 0)
	case kindSigned(from):
		return in.st.SExt(t, wt)
	default:
		return in.st.ZExt(t, wt)
	}
}

func basicKind(t types.Type) (types.BasicKind, bool) {
	if b, ok := t.Underlying().(*types.Basic); ok {
		k := b.Kind()
		switch k {
		case types.UntypedInt:
			k = types.Int
		case types.UntypedRune:
			k = types.Int32
		case types.UntypedBool:
			k = types.Bool
		}
		return k, true
	}
	return 0, false
}

func isIntKind(k types.BasicKind) bool {
	switch k {
	case types.Int, types.Int8, types.Int16, types.Int32, types.Int64,
		types.Uint, types.Uint8, types.Uint16, types.Uint32, types.Uint64, types.Uintptr:
		return true
	}
	return false
}

// binop implements all arithmetic and logical binary operators.
func (fr *frame) binop(op token.Token, t types.Type, x, y value) value {
	in := fr.i
	sx, xsym := x.(symv)
	sy, ysym := y.(symv)
	if xsym || ysym {
		return fr.symBinop(op, x, y, sx, sy, xsym, ysym)
	}
	if bx, ok := intBits(x); ok {
		k := kindOf(x)
		by, ok2 := intBits(y)
		if !ok2 {
			if _, isOp := y.(opaque); isOp {
				inconclusive("inspection of unrendered formatted text")
			}
			panic(fmt.Sprintf("binop %s: %T vs %T", op, x, y))
		}
		signed := kindSigned(k)
		w := uint64(kindWidth(k))
		switch op {
		case token.ADD:
			return mkInt(k, bx+by)
		case token.SUB:
			return mkInt(k, bx-by)
		case token.MUL:
			return mkInt(k, bx*by)
		case token.QUO:
			if by == 0 {
				panic(runtimeError("runtime error: integer divide by zero"))
			}
			if signed {
				if int64(by) == -1 {
					return mkInt(k, -bx)
				}
				return mkInt(k, uint64(int64(bx)/int64(by)))
			}
			return mkInt(k, bx/by)
		case token.REM:
			if by == 0 {
				panic(runtimeError("runtime error: integer divide by zero"))
			}
			if signed {
				if int64(by) == -1 {
					return mkInt(k, 0)
				}
				return mkInt(k, uint64(int64(bx)%int64(by)))
			}
			return mkInt(k, bx%by)
		case token.AND:
			return mkInt(k, bx&by)
		case token.OR:
			return mkInt(k, bx|by)
		case token.XOR:
			return mkInt(k, bx^by)
		case token.AND_NOT:
			return mkInt(k, bx&^by)
		case token.SHL:
			if kindSigned(kindOf(y)) && int64(by) < 0 {
				panic(runtimeError("runtime error: negative shift amount"))
			}
			if by >= w {
				return mkInt(k, 0)
			}
			return mkInt(k, bx<<by)
		case token.SHR:
			if kindSigned(kindOf(y)) && int64(by) < 0 {
				panic(runtimeError("runtime error: negative shift amount"))
			}
			if signed {
				if by > 63 {
					by = 63
				}
				return mkInt(k, uint64(int64(bx)>>by))
			}
			if by >= w {
				return mkInt(k, 0)
			}
			return mkInt(k, (bx&mask(int(w)))>>by)
		case token.EQL:
			return bx == by
		case token.NEQ:
			return bx != by
		case token.LSS:
			if signed {
				return int64(bx) < int64(by)
			}
			return bx < by
		case token.LEQ:
			if signed {
				return int64(bx) <= int64(by)
			}
			return bx <= by
		case token.GTR:
			if signed {
				return int64(bx) > int64(by)
			}
			return bx > by
		case token.GEQ:
			if signed {
				return int64(bx) >= int64(by)
			}
			return bx >= by
		}
		panic(fmt.Sprintf("invalid integer binary op %s", op))
	}

	switch op {
	case token.EQL:
		return fr.eqValue(t, x, y)
	case token.NEQ:
		r := fr.eqValue(t, x, y)
		if b, ok := r.(bool); ok {
			return !b
		}
		return in.mkSym(in.st.Not(r.(symv).t), types.Bool)
	}

	switch x := x.(type) {
	case string:
		if ys, ok := y.(*symString); ok {
			return fr.symStringBinop(op, strToSym(x), ys)
		}
		ys := y.(string)
		switch op {
		case token.ADD:
			return x + ys
		case token.LSS:
			return x < ys
		case token.LEQ:
			return x <= ys
		case token.GTR:
			return x > ys
		case token.GEQ:
			return x >= ys
		}
	case *symString:
		switch y := y.(type) {
		case string:
			return fr.symStringBinop(op, x, strToSym(y))
		case *symString:
			return fr.symStringBinop(op, x, y)
		}
	case float64:
		yf := y.(float64)
		switch op {
		case token.ADD:
			return x + yf
		case token.SUB:
			return x - yf
		case token.MUL:
			return x * yf
		case token.QUO:
			return x / yf
		case token.LSS:
			return x < yf
		case token.LEQ:
			return x <= yf
		case token.GTR:
			return x > yf
		case token.GEQ:
			return x >= yf
		}
	case float32:
		yf := y.(float32)
		switch op {
		case token.ADD:
			return x + yf
		case token.SUB:
			return x - yf
		case token.MUL:
			return x * yf
		case token.QUO:
			return x / yf
		case token.LSS:
			return x < yf
		case token.LEQ:
			return x <= yf
		case token.GTR:
			return x > yf
		case token.GEQ:
			return x >= yf
		}
	case bool:
		yb := y.(bool)
		switch op {
		case token.AND, token.LAND:
			return x && yb
		case token.OR, token.LOR:
			return x || yb
		}
	}
	if _, ok := x.(opaque); ok {
		inconclusive("inspection of unrendered formatted text")
	}
	if _, ok := y.(opaque); ok {
		inconclusive("inspection of unrendered formatted text")
	}
	panic(fmt.Sprintf("invalid binary op: %T %s %T", x, op, y))
}

func (fr *frame) symBinop(op token.Token, x, y value, sx, sy symv, xsym, ysym bool) value {
	in := fr.i
	st := in.st
	var k types.BasicKind
	if xsym {
		k = sx.k
	} else {
		k = kindOf(x)
	}
	if k == types.Bool {
		tx, ty := in.toTerm(x, k), in.toTerm(y, k)
		switch op {
		case token.EQL:
			return in.mkSym(st.Eq(tx, ty), types.Bool)
		case token.NEQ:
			return in.mkSym(st.Not(st.Eq(tx, ty)), types.Bool)
		case token.AND, token.LAND:
			return in.mkSym(st.And(tx, ty), types.Bool)
		case token.OR, token.LOR:
			return in.mkSym(st.Or(tx, ty), types.Bool)
		}
		panic(fmt.Sprintf("invalid symbolic bool op %s", op))
	}
	if !isIntKind(k) {
		inconclusive("symbolic operand mixed with %T in %s", x, op)
	}
	w := kindWidth(k)
	signed := kindSigned(k)
	tx := in.toTerm(x, k)
	if op == token.SHL || op == token.SHR {
		// shift count has its own type
		var ky types.BasicKind
		if ysym {
			ky = sy.k
		} else {
			ky = kindOf(y)
		}
		ty := in.toTerm(y, ky)
		if kindSigned(ky) {
			// negative shift count panics
			neg := st.Slt(ty, st.Const(ty.w, 0))
			if fr.branch(neg) {
				panic(runtimeError("runtime error: negative shift amount"))
			}
		}
		// bring the count to width w, saturating
		var cnt *Term
		switch {
		case ty.w == w:
			cnt = ty
		case ty.w < w:
			cnt = st.ZExt(ty, w)
		default:
			big := st.Ule(st.Const(ty.w, uint64(w)), ty)
			cnt = st.Ite(big, st.Const(w, uint64(w)), st.Extract(ty, w-1, 0))
		}
		switch {
		case op == token.SHL:
			return in.mkSym(st.Bin(OpShl, tx, cnt), k)
		case signed:
			return in.mkSym(st.Bin(OpAShr, tx, cnt), k)
		default:
			return in.mkSym(st.Bin(OpLShr, tx, cnt), k)
		}
	}
	ty := in.toTerm(y, k)
	switch op {
	case token.ADD:
		return in.mkSym(st.Bin(OpAdd, tx, ty), k)
	case token.SUB:
		return in.mkSym(st.Bin(OpSub, tx, ty), k)
	case token.MUL:
		return in.mkSym(st.Bin(OpMul, tx, ty), k)
	case token.QUO, token.REM:
		if fr.branch(st.Eq(ty, st.Const(w, 0))) {
			panic(runtimeError("runtime error: integer divide by zero"))
		}
		var o Op
		switch {
		case op == token.QUO && signed:
			o = OpSDiv
		case op == token.QUO:
			o = OpUDiv
		case signed:
			o = OpSRem
		default:
			o = OpURem
		}
		return in.mkSym(st.Bin(o, tx, ty), k)
	case token.AND:
		return in.mkSym(st.Bin(OpAnd, tx, ty), k)
	case token.OR:
		return in.mkSym(st.Bin(OpOr, tx, ty), k)
	case token.XOR:
		return in.mkSym(st.Bin(OpXor, tx, ty), k)
	case token.AND_NOT:
		return in.mkSym(st.Bin(OpAnd, tx, st.Un(OpNot, ty)), k)
	case token.EQL:
		return in.mkSym(st.Eq(tx, ty), types.Bool)
	case token.NEQ:
		return in.mkSym(st.Not(st.Eq(tx, ty)), types.Bool)
	case token.LSS:
		if signed {
			return in.mkSym(st.Slt(tx, ty), types.Bool)
		}
		return in.mkSym(st.Ult(tx, ty), types.Bool)
	case token.LEQ:
		if signed {
			return in.mkSym(st.Sle(tx, ty), types.Bool)
		}
		return in.mkSym(st.Ule(tx, ty), types.Bool)
	case token.GTR:
		if signed {
			return in.mkSym(st.Slt(ty, tx), types.Bool)
		}
		return in.mkSym(st.Ult(ty, tx), types.Bool)
	case token.GEQ:
		if signed {
			return in.mkSym(st.Sle(ty, tx), types.Bool)
		}
		return in.mkSym(st.Ule(ty, tx), types.Bool)
	}
	panic(fmt.Sprintf("invalid symbolic binary op %s", op))
}

// eqValue compares x and y of static type t, returning bool or symv{Bool}.
func (fr *frame) eqValue(t types.Type, x, y value) value {
	b, st := fr.eqv(t, x, y)
	if st != nil {
		return fr.i.mkSym(st, types.Bool)
	}
	return b
}

// eqv is the general (possibly symbolic) equality.  If the returned term is
// non-nil it is the answer; otherwise the bool is.
func (fr *frame) eqv(t types.Type, x, y value) (bool, *Term) {
	in := fr.i
	switch x := x.(type) {
	case symv:
		k := x.k
		tt := in.st.Eq(x.t, in.toTerm(y, k))
		if tt.IsConst() {
			return tt.op == OpTrue, nil
		}
		return false, tt
	case *symString:
		return fr.symStringEq(x, y)
	case string:
		if ys, ok := y.(*symString); ok {
			return fr.symStringEq(ys, x)
		}
		return x == y.(string), nil
	case structure:
		ys := y.(structure)
		tStruct := t.Underlying().(*types.Struct)
		var acc *Term
		for i, n := 0, tStruct.NumFields(); i < n; i++ {
			f := tStruct.Field(i)
			if f.Name() == "_" {
				continue
			}
			b, tt := fr.eqv(f.Type(), x[i], ys[i])
			if tt == nil {
				if !b {
					return false, nil
				}
				continue
			}
			if acc == nil {
				acc = tt
			} else {
				acc = in.st.And(acc, tt)
			}
		}
		if acc != nil {
			return false, acc
		}
		return true, nil
	case array:
		ya := y.(array)
		tElt := t.Underlying().(*types.Array).Elem()
		var acc *Term
		for i := range x {
			b, tt := fr.eqv(tElt, x[i], ya[i])
			if tt == nil {
				if !b {
					return false, nil
				}
				continue
			}
			if acc == nil {
				acc = tt
			} else {
				acc = in.st.And(acc, tt)
			}
		}
		if acc != nil {
			return false, acc
		}
		return true, nil
	case iface:
		yi := y.(iface)
		if !sameType(x.t, yi.t) {
			return false, nil
		}
		if x.t == nil {
			return true, nil
		}
		return fr.eqv(x.t, x.v, yi.v)
	}
	if _, ok := y.(symv); ok {
		return fr.eqv(t, y, x)
	}
	switch t.Underlying().(type) {
	case *types.Map, *types.Signature, *types.Slice:
		return eqnil(t, x, y), nil
	}
	return equals(t, x, y), nil
}

func eqnil(t types.Type, x, y value) bool {
	switch x := x.(type) {
	case *omap:
		return (x != nil) == (y.(*omap) != nil)
	case *ssa.Function:
		switch y := y.(type) {
		case *ssa.Function:
			return (x != nil) == (y != nil)
		case *closure:
			return x != nil
		}
	case *closure:
		switch y := y.(type) {
		case *ssa.Function:
			return y != nil
		case *closure:
			return x == y
		}
	case []value:
		return (x != nil) == (y.([]value) != nil)
	}
	panic(fmt.Sprintf("eqnil(%s): illegal dynamic type: %T vs %T", t, x, y))
}

func (fr *frame) unop(instr *ssa.UnOp, x value) value {
	in := fr.i
	switch instr.Op {
	case token.SUB:
		if s, ok := x.(symv); ok {
			return in.mkSym(in.st.Un(OpNeg, s.t), s.k)
		}
		if b, ok := intBits(x); ok {
			return mkInt(kindOf(x), -b)
		}
		switch x := x.(type) {
		case float32:
			return -x
		case float64:
			return -x
		}
	case token.MUL:
		if le, ok := x.(lazyElem); ok {
			return fr.indexValue(le.elems, le.idx)
		}
		p := x.(*value)
		if p == nil {
			panic(runtimeError("runtime error: invalid memory address or nil pointer dereference"))
		}
		return load(deref(instr.X.Type()), p)
	case token.NOT:
		if s, ok := x.(symv); ok {
			return in.mkSym(in.st.Not(s.t), types.Bool)
		}
		return !x.(bool)
	case token.XOR:
		if s, ok := x.(symv); ok {
			return in.mkSym(in.st.Un(OpNot, s.t), s.k)
		}
		if b, ok := intBits(x); ok {
			return mkInt(kindOf(x), ^b)
		}
	case token.ARROW:
		inconclusive("channel receive")
	}
	panic(fmt.Sprintf("invalid unary op %s %T", instr.Op, x))
}

func deref(t types.Type) types.Type {
	if p, ok := t.Underlying().(*types.Pointer); ok {
		return p.Elem()
	}
	panic(fmt.Sprintf("deref: not a pointer: %s", t))
}

// typeAssert checks whether dynamic type of itf is instr.AssertedType.
func (fr *frame) typeAssert(instr *ssa.TypeAssert, itf iface) value {
	var v value
	err := ""
	if itf.t == nil {
		err = fmt.Sprintf("interface conversion: interface is nil, not %s", instr.AssertedType)
	} else if idst, ok := instr.AssertedType.Underlying().(*types.Interface); ok {
		v = itf
		if meth, _ := types.MissingMethod(itf.t, idst, true); meth != nil {
			err = fmt.Sprintf("interface conversion: %v is not %v: missing method %s", itf.t, idst, meth.Name())
		}
	} else if types.Identical(itf.t, instr.AssertedType) {
		v = itf.v
	} else {
		err = fmt.Sprintf("interface conversion: interface is %s, not %s", itf.t, instr.AssertedType)
	}
	if err != "" {
		if !instr.CommaOk {
			panic(runtimeError(err))
		}
		return tuple{zero(instr.AssertedType), false}
	}
	if instr.CommaOk {
		return tuple{v, true}
	}
	return v
}

// slice returns x[lo:hi:max].  Any of lo, hi and max may be nil.
func (fr *frame) slice(x, lo, hi, max value) value {
	var Len, Cap int
	switch x := x.(type) {
	case string:
		Len = len(x)
	case *symString:
		Len = len(x.b)
	case []value:
		Len = len(x)
		Cap = cap(x)
	case *value: // *array
		if x == nil {
			panic(runtimeError("runtime error: invalid memory address or nil pointer dereference"))
		}
		a := (*x).(array)
		Len = len(a)
		Cap = cap(a)
	}
	l := int64(0)
	if lo != nil {
		l = fr.concreteInt(lo)
	}
	h := int64(Len)
	if hi != nil {
		h = fr.concreteInt(hi)
	}
	m := int64(Cap)
	if max != nil {
		m = fr.concreteInt(max)
	}
	switch x := x.(type) {
	case string:
		if l < 0 || h > int64(Len) || l > h {
			panic(runtimeError(fmt.Sprintf("runtime error: slice bounds out of range [%d:%d] with length %d", l, h, Len)))
		}
		return x[l:h]
	case *symString:
		if l < 0 || h > int64(Len) || l > h {
			panic(runtimeError(fmt.Sprintf("runtime error: slice bounds out of range [%d:%d] with length %d", l, h, Len)))
		}
		return normStr(x.b[l:h])
	case []value:
		if l < 0 || h > m || l > h || m > int64(Cap) {
			panic(runtimeError(fmt.Sprintf("runtime error: slice bounds out of range [%d:%d:%d] with capacity %d", l, h, m, Cap)))
		}
		if x == nil {
			return x
		}
		return x[l:h:m]
	case *value: // *array
		a := (*x).(array)
		if l < 0 || h > m || l > h || m > int64(Cap) {
			panic(runtimeError(fmt.Sprintf("runtime error: slice bounds out of range [%d:%d:%d] with capacity %d", l, h, m, Cap)))
		}
		return []value(a)[l:h:m]
	}
	panic(fmt.Sprintf("slice: unexpected X type: %T", x))
}

// conv converts the value x of type t_src to type t_dst.
func (fr *frame) conv(t_dst, t_src types.Type, x value) value {
	in := fr.i
	ut_src := t_src.Underlying()
	ut_dst := t_dst.Underlying()

	switch ut_src := ut_src.(type) {
	case *types.Pointer:
		if b, ok := ut_dst.(*types.Basic); ok && b.Kind() == types.UnsafePointer {
			return unsafe.Pointer(x.(*value))
		}
	case *types.Slice:
		// []byte or []rune -> string
		switch ut_src.Elem().Underlying().(*types.Basic).Kind() {
		case types.Byte:
			xs := x.([]value)
			cp := make([]value, len(xs))
			copy(cp, xs)
			return normStr(cp)
		case types.Rune:
			xs := x.([]value)
			r := make([]rune, 0, len(xs))
			for i := range xs {
				c, ok := xs[i].(int32)
				if !ok {
					inconclusive("[]rune with symbolic element converted to string")
				}
				r = append(r, c)
			}
			return string(r)
		}
	case *types.Basic:
		// symbolic integer / bool
		if s, ok := x.(symv); ok {
			kd, okd := basicKind(t_dst)
			if okd && (isIntKind(kd) && isIntKind(s.k)) {
				return in.mkSym(in.convTerm(s.t, s.k, kd), kd)
			}
			if okd && kd == types.Bool && s.k == types.Bool {
				return x
			}
			if okd && kd == types.String {
				// string(rune): only ASCII range supported symbolically
				if s.t.hi < 0x80 {
					return &symString{b: []value{in.mkSym(in.st.Extract(s.t, 7, 0), types.Uint8)}}
				}
			}
			inconclusive("unsupported symbolic conversion %s -> %s", t_src, t_dst)
		}
		if s, ok := x.(*symString); ok {
			switch ut_dst := ut_dst.(type) {
			case *types.Slice:
				switch ut_dst.Elem().Underlying().(*types.Basic).Kind() {
				case types.Byte:
					res := make([]value, len(s.b))
					copy(res, s.b)
					return res
				case types.Rune:
					res := make([]value, 0, len(s.b))
					for _, e := range s.b {
						res = append(res, fr.byteToRune(e))
					}
					return res
				}
			case *types.Basic:
				if ut_dst.Kind() == types.String {
					return x
				}
			}
			inconclusive("unsupported symbolic string conversion to %s", t_dst)
		}
		// integer -> string?
		if ut_src.Info()&types.IsInteger != 0 {
			if ut_dst, ok := ut_dst.(*types.Basic); ok && ut_dst.Kind() == types.String {
				return string(rune(asInt64(x)))
			}
		}
		if s, ok := x.(string); ok {
			switch ut_dst := ut_dst.(type) {
			case *types.Slice:
				switch ut_dst.Elem().Underlying().(*types.Basic).Kind() {
				case types.Rune:
					rs := []rune(s)
					res := make([]value, len(rs))
					for i, r := range rs {
						res[i] = r
					}
					return res
				case types.Byte:
					res := make([]value, len(s))
					for i := 0; i < len(s); i++ {
						res[i] = s[i]
					}
					return res
				}
			case *types.Basic:
				if ut_dst.Kind() == types.String {
					return s
				}
			}
			break
		}
		if ut_src.Kind() == types.UnsafePointer {
			if p, ok := x.(unsafe.Pointer); ok {
				if _, isPtr := ut_dst.(*types.Pointer); isPtr {
					return (*value)(p)
				}
				return x
			}
			return zero(t_dst)
		}
		if ut_src.Info()&types.IsNumeric != 0 {
			kd, ok := basicKind(t_dst)
			if !ok {
				break
			}
			if b, ok := intBits(x); ok {
				if isIntKind(kd) {
					return mkInt(kd, b)
				}
				signed := kindSigned(kindOf(x))
				switch kd {
				case types.Float32:
					if signed {
						return float32(int64(b))
					}
					return float32(b)
				case types.Float64:
					if signed {
						return float64(int64(b))
					}
					return float64(b)
				}
			}
			var f float64
			isF := false
			switch x := x.(type) {
			case float32:
				f, isF = float64(x), true
			case float64:
				f, isF = x, true
			}
			if isF {
				switch kd {
				case types.Float32:
					return float32(f)
				case types.Float64:
					return f
				}
				if isIntKind(kd) {
					if kindSigned(kd) {
						return mkInt(kd, uint64(int64(f)))
					}
					if f < 0 || f >= math.MaxUint64 {
						return mkInt(kd, uint64(int64(f)))
					}
					return mkInt(kd, uint64(f))
				}
			}
		}
	}
	panic(fmt.Sprintf("unsupported conversion: %s  -> %s, dynamic type %T", t_src, t_dst, x))
}

// byteToRune widens a (possibly symbolic) byte of a string to a rune under
// the ASCII assumption; non-ASCII symbolic bytes are inconclusive.
func (fr *frame) byteToRune(e value) value {
	switch e := e.(type) {
	case uint8:
		return int32(e)
	case symv:
		if e.t.hi >= 0x80 {
			if fr.branch(fr.i.st.Ult(e.t, fr.i.st.Const(8, 0x80))) {
				return fr.i.mkSym(fr.i.st.ZExt(e.t, 32), types.Int32)
			}
			inconclusive("symbolic non-ASCII byte decoded as rune")
		}
		return fr.i.mkSym(fr.i.st.ZExt(e.t, 32), types.Int32)
	}
	panic(fmt.Sprintf("byteToRune: %T", e))
}
