package gosym

// Strings with symbolic bytes, and decimal atoms: the canonical decimal
// numeral of a symbolic integer, kept as digit variables with provenance so
// that parsing the text back yields the original term without arithmetic.

import (
	"fmt"
	"go/token"
	"go/types"
	"strings"
)

func strToSym(s string) *symString {
	b := make([]value, len(s))
	for i := 0; i < len(s); i++ {
		b[i] = s[i]
	}
	return &symString{b: b}
}

// normStr returns a Go string if all bytes are concrete, else a *symString.
// The slice is not copied.
func normStr(b []value) value {
	for _, e := range b {
		if _, ok := e.(uint8); !ok {
			return &symString{b: b}
		}
	}
	bs := make([]byte, len(b))
	for i, e := range b {
		bs[i] = e.(uint8)
	}
	return string(bs)
}

func strBytes(x value) []value {
	switch x := x.(type) {
	case string:
		return strToSym(x).b
	case *symString:
		return x.b
	}
	panic(fmt.Sprintf("strBytes: %T", x))
}

func strLen(x value) int {
	switch x := x.(type) {
	case string:
		return len(x)
	case *symString:
		return len(x.b)
	}
	panic(fmt.Sprintf("strLen: %T", x))
}

func (s *symString) debug() string {
	var sb strings.Builder
	sb.WriteString("\"")
	for _, e := range s.b {
		switch e := e.(type) {
		case uint8:
			sb.WriteByte(e)
		case opaque:
			sb.WriteString("‹opaque›")
		case symv:
			if e.t.atom != nil {
				sb.WriteString("‹d›")
			} else {
				sb.WriteString("‹?›")
			}
		}
	}
	sb.WriteString("\"")
	return sb.String()
}

func concat(a, b value) value {
	as, aok := a.(string)
	bs, bok := b.(string)
	if aok && bok {
		return as + bs
	}
	ab, bb := strBytes(a), strBytes(b)
	out := make([]value, 0, len(ab)+len(bb))
	out = append(out, ab...)
	out = append(out, bb...)
	return normStr(out)
}

func (fr *frame) symStringBinop(op token.Token, x, y *symString) value {
	switch op {
	case token.ADD:
		out := make([]value, 0, len(x.b)+len(y.b))
		out = append(out, x.b...)
		out = append(out, y.b...)
		return normStr(out)
	case token.EQL:
		b, t := fr.symStringEq(x, y)
		if t != nil {
			return fr.i.mkSym(t, types.Bool)
		}
		return b
	case token.NEQ:
		b, t := fr.symStringEq(x, y)
		if t != nil {
			return fr.i.mkSym(fr.i.st.Not(t), types.Bool)
		}
		return !b
	case token.LSS, token.LEQ, token.GTR, token.GEQ:
		// lexicographic comparison, decided byte by byte with forks
		n := len(x.b)
		if len(y.b) < n {
			n = len(y.b)
		}
		for i := 0; i < n; i++ {
			eq := fr.byteEq(x.b[i], y.b[i])
			if eq {
				continue
			}
			lt := fr.byteLess(x.b[i], y.b[i])
			switch op {
			case token.LSS, token.LEQ:
				return lt
			default:
				return !lt
			}
		}
		switch op {
		case token.LSS:
			return len(x.b) < len(y.b)
		case token.LEQ:
			return len(x.b) <= len(y.b)
		case token.GTR:
			return len(x.b) > len(y.b)
		default:
			return len(x.b) >= len(y.b)
		}
	}
	panic(fmt.Sprintf("invalid string op %s", op))
}

func (fr *frame) byteTerm(e value) *Term {
	switch e := e.(type) {
	case opaque:
		inconclusive("inspection of unrendered formatted text (%s)", e.why)
	case uint8:
		return fr.i.st.Const(8, uint64(e))
	case symv:
		return e.t
	}
	panic(fmt.Sprintf("byteTerm: %T", e))
}

// byteEq decides (forking if needed) whether two string bytes are equal.
func (fr *frame) byteEq(a, b value) bool {
	ac, aok := a.(uint8)
	bc, bok := b.(uint8)
	if aok && bok {
		return ac == bc
	}
	return fr.branch(fr.i.st.Eq(fr.byteTerm(a), fr.byteTerm(b)))
}

func (fr *frame) byteLess(a, b value) bool {
	ac, aok := a.(uint8)
	bc, bok := b.(uint8)
	if aok && bok {
		return ac < bc
	}
	return fr.branch(fr.i.st.Ult(fr.byteTerm(a), fr.byteTerm(b)))
}

// symStringEq compares a symbolic string with a string or symbolic string.
func (fr *frame) symStringEq(x *symString, y value) (bool, *Term) {
	yb := strBytes(y)
	if len(x.b) != len(yb) {
		return false, nil
	}
	st := fr.i.st
	var acc *Term
	for i := range x.b {
		ac, aok := x.b[i].(uint8)
		bc, bok := yb[i].(uint8)
		if aok && bok {
			if ac != bc {
				return false, nil
			}
			continue
		}
		t := st.Eq(fr.byteTerm(x.b[i]), fr.byteTerm(yb[i]))
		if t == st.ff {
			return false, nil
		}
		if t == st.tt {
			continue
		}
		if acc == nil {
			acc = t
		} else {
			acc = st.And(acc, t)
		}
	}
	if acc == nil {
		return true, nil
	}
	return false, acc
}

// concretizeString forks over feasible concrete values of each symbolic byte.
func (fr *frame) concretizeString(s *symString) value {
	out := make([]byte, len(s.b))
	for i, e := range s.b {
		switch e := e.(type) {
		case uint8:
			out[i] = e
		case symv:
			out[i] = byte(fr.concretize(e))
		}
	}
	return string(out)
}

// ---- decimal atoms ----

type decAtom struct {
	mag    *Term   // non-negative magnitude, 64 bits
	k      int     // number of digits
	digits []*Term // 8-bit digit characters '0'..'9', most significant first
}

var pow10 = [...]uint64{1, 10, 100, 1000, 10000, 100000, 1000000, 10000000, 100000000, 1000000000,
	10000000000, 100000000000, 1000000000000, 10000000000000, 100000000000000, 1000000000000000,
	10000000000000000, 100000000000000000, 1000000000000000000, 10000000000000000000}

// formatInt returns the decimal text of a symbolic integer: forks on sign
// and digit count, yields digit bytes with provenance.
func (fr *frame) formatInt(s symv) value {
	in := fr.i
	st := in.st
	t := in.convTerm(s.t, s.k, types.Int64)
	if !kindSigned(s.k) {
		// unsigned: magnitude is the zero-extended value
		return fr.formatMag(in.convTerm(s.t, s.k, types.Uint64), false)
	}
	neg := st.Slt(t, st.Const(64, 0))
	if fr.branch(neg) {
		return fr.formatMag(st.Un(OpNeg, t), true)
	}
	return fr.formatMag(t, false)
}

func (fr *frame) formatMag(mag *Term, neg bool) value {
	in := fr.i
	st := in.st
	p := in.path
	atom := p.atoms[mag.id]
	if atom == nil {
		// choose digit count: smallest k with mag < 10^k
		k := 0
		maxK := in.cfg.MaxDigits
		for d := 1; d <= 20; d++ {
			if d == 20 {
				k = 20
				break
			}
			if d > maxK {
				// outside the stated digit bound: prune, recorded as assumption
				in.Stats.DigitBoundPruned++
				panic(pathEnd{kind: "assume", msg: "decimal literal longer than digit bound"})
			}
			if fr.branch(st.Ult(mag, st.Const(64, pow10[d]))) {
				k = d
				break
			}
		}
		atom = &decAtom{mag: mag, k: k}
		for i := 0; i < k; i++ {
			lo := uint64('0')
			if i == 0 && k > 1 {
				lo = '1'
			}
			dt := st.VarRange(fmt.Sprintf("dig!%d!%d!%d", mag.id, k, i), 8, lo, '9')
			dt.atom = atom
			atom.digits = append(atom.digits, dt)
		}
		p.atoms[mag.id] = atom
		for i, dt := range atom.digits {
			lo := uint64('0')
			if i == 0 && k > 1 {
				lo = '1'
			}
			in.sv.Assert(st.RawRange(dt, lo, '9'))
		}
		if k == 1 {
			p.linked[atom] = true
			in.sv.Assert(in.atomLink(atom))
		}
	}
	out := make([]value, 0, atom.k+1)
	if neg {
		out = append(out, uint8('-'))
	}
	for _, dt := range atom.digits {
		out = append(out, symv{dt, types.Uint8})
	}
	return &symString{b: out}
}

// linkAtoms adds, once per path, the positional-value constraint of every
// atom whose digit variables occur in c.
func (in *Interp) linkAtoms(c *Term) {
	p := in.path
	if p == nil || len(p.atoms) == 0 {
		return
	}
	seen := map[int]bool{}
	var walk func(t *Term)
	walk = func(t *Term) {
		if seen[t.id] {
			return
		}
		seen[t.id] = true
		if t.op == OpVar && t.atom != nil && !p.linked[t.atom] {
			p.linked[t.atom] = true
			in.sv.Assert(in.atomLink(t.atom))
			in.Stats.AtomLinks++
		}
		for _, a := range t.args {
			walk(a)
		}
	}
	walk(c)
}

// atomLink is mag == Horner(digits).
func (in *Interp) atomLink(a *decAtom) *Term {
	st := in.st
	var acc *Term
	for _, d := range a.digits {
		dv := st.ZExt(st.Bin(OpSub, d, st.Const(8, '0')), 64)
		if acc == nil {
			acc = dv
		} else {
			acc = st.Bin(OpAdd, st.Bin(OpMul, acc, st.Const(64, 10)), dv)
		}
	}
	return st.Eq(a.mag, acc)
}

// atomOfDigits reports whether elems is exactly the digit sequence of one
// atom, returning it.
func atomOfDigits(elems []value) *decAtom {
	if len(elems) == 0 {
		return nil
	}
	first, ok := elems[0].(symv)
	if !ok {
		return nil
	}
	var a *decAtom
	if first.t.atom != nil {
		a = first.t.atom
	} else {
		return nil
	}
	if a.k != len(elems) {
		return nil
	}
	for i, e := range elems {
		s, ok := e.(symv)
		if !ok || s.t != a.digits[i] {
			return nil
		}
	}
	return a
}

// parseDecimal recognises text that is ('-'|'+')? followed by the digits of
// one atom, returning the signed 64-bit value term.
func (fr *frame) parseDecimal(b []value) (*Term, bool) {
	in := fr.i
	st := in.st
	neg := false
	if len(b) > 0 {
		if c, ok := b[0].(uint8); ok && (c == '-' || c == '+') {
			neg = c == '-'
			b = b[1:]
		}
	}
	a := atomOfDigits(b)
	if a == nil {
		return nil, false
	}
	mag := a.mag
	_ = in
	if neg {
		return st.Un(OpNeg, mag), true
	}
	return mag, true
}
