#!/bin/bash
# seedrun.sh <diff> <PROP> [tier]: apply a seeded change to /repo, run the check, undo.
D=$1; P=$2; T=${3:-quick}
cd /repo || exit 2
if [ -n "$(git status --porcelain)" ]; then echo "/repo not clean"; exit 2; fi
git apply "$D" || git apply -3 "$D" || { echo "cannot apply"; exit 2; }
cd /verif && ./check $P $T > /tmp/seedrun.log 2>&1; rc=$?
cd /repo && git checkout -q -- . && git status --porcelain | head -3
grep -E "^(VIOLATION|KNOWN-FINDING|INCONCLUSIVE|property=|  harness=|  model=|ERROR)" /tmp/seedrun.log | cut -c1-300 | head -12
echo "exit=$rc"
