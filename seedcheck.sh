#!/bin/bash
# seedcheck.sh <PROP> <n>: confirm seeded mutation n of /tmp/wt/<PROP>/out in a scratch worktree at /repo HEAD:
# demo passes pristine, mutation applies, builds, full suite passes, demo fails.
set -u
P=$1; N=$2; W=/tmp/wt/$P
export GOFLAGS=-mod=mod GOPROXY=off GOSUMDB=off GOTOOLCHAIN=local
cd $W || exit 2
git checkout -q -- . ; rm -rf internal/zdemo; git checkout -q --detach main 2>/dev/null
mkdir -p internal/zdemo
cp out/m${N}_demo_test.go internal/zdemo/demo_test.go
TAGS=$(grep -m1 '^//go:build' internal/zdemo/demo_test.go | sed 's|//go:build ||')
TF=""; [ -n "$TAGS" ] && TF="-tags $TAGS"
mv out /tmp/wt/${P}_out_tmp
echo "== demo on pristine HEAD"; go test $TF -vet=off -count=1 ./internal/zdemo/ 2>&1 | grep -E "^(ok|FAIL|---)" | head -5
if ! git apply --check /tmp/wt/${P}_out_tmp/m$N.diff 2>/dev/null; then echo "!! diff does not apply cleanly to HEAD"; git apply -3 /tmp/wt/${P}_out_tmp/m$N.diff || { mv /tmp/wt/${P}_out_tmp out; exit 1; }; else git apply /tmp/wt/${P}_out_tmp/m$N.diff; fi
echo "== build + full suite with mutation"; go build ./... && go test -vet=off -count=1 $(go list ./... | grep -v zdemo) 2>&1 | grep -E "^(FAIL|---|ok)" | grep -v "^ok" | head
echo "== demo with mutation"; go test $TF -vet=off -count=1 ./internal/zdemo/ 2>&1 | grep -E "^(ok|FAIL|--- FAIL)" | head -5
git checkout -q -- . ; rm -rf internal/zdemo
mv /tmp/wt/${P}_out_tmp out
