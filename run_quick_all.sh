#!/bin/bash
# runs every quick tier in sequence, writing evidence (helper; not registered in MANIFEST)
cd "$(dirname "$0")"
for p in ${@:-C01 C02 C03 C04 C05 C06 C07 C08 C09 C10 C11 C12 C13 C14 C15 C16 C17 C18 C19}; do
  s=$(date +%s)
  timeout 3000 ./check $p quick > /verif/scratch/quick_$p.log 2>&1
  rc=$?
  echo "$p rc=$rc $(( $(date +%s) - s ))s $(grep '^property=' /verif/scratch/quick_$p.log | cut -c1-170)"
  grep -E "^(VIOLATION|INCONCLUSIVE)" /verif/scratch/quick_$p.log | head -3
done
